#!/bin/sh
# runs every claimed check (quick) on the current tree; prints one line per property
for id in $(python3 -c "import json;print(' '.join(c['property_id'] for c in json.load(open('/verif/MANIFEST.json'))['checks']))"); do
  out=$(/verif/check $id quick 2>&1); code=$?
  u=$(echo "$out" | grep -c "^UNDECIDED")
  echo "[$code] $(echo "$out" | grep "obligations discharged" | tail -1) undecided=$u"
  [ $code -ne 0 ] && echo "$out" | grep -v "obligations discharged" | tail -5
  [ "$u" -ne 0 ] && echo "$out" | grep "^UNDECIDED" | head -3 | cut -c1-300
done
