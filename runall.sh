#!/bin/sh
# runs every claimed check (quick) on the current tree; prints one line per property
for id in $(python3 -c "import json;print(' '.join(c['property_id'] for c in json.load(open('/verif/MANIFEST.json'))['checks']))"); do
  out=$(/verif/check $id quick 2>&1); code=$?
  echo "[$code] $(echo "$out" | grep "obligations discharged" | tail -1)"
  [ $code -ne 0 ] && echo "$out" | grep -v "obligations discharged" | tail -5
done
