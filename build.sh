#!/bin/sh
# builds /verif/bin/govc offline
set -e
export PATH=/opt/veriftools/go1.26.8/bin:$PATH GOTOOLCHAIN=local GOFLAGS=-mod=mod GOPROXY=off GOSUMDB=off
cd /verif/govc && go build -o /verif/bin/govc .
