/* Stub of bpf/bpf_core_read.h for layout extraction only. */
#ifndef __BPF_CORE_READ_STUB__
#define __BPF_CORE_READ_STUB__
#define BPF_CORE_READ(src, a, ...) ((src)->a)
#define bpf_core_field_exists(field) 1
#define bpf_core_enum_value_exists(t, v) 1
#define bpf_core_type_exists(t) 1
#define __builtin_preserve_access_index(x) (x)
#endif
