/* Stub of libbpf's bpf/bpf_helpers.h for layout extraction only (nothing here affects record layout). */
#ifndef __BPF_HELPERS_STUB__
#define __BPF_HELPERS_STUB__
#define SEC(NAME) __attribute__((section(NAME), used))
#ifndef __always_inline
#define __always_inline inline __attribute__((always_inline))
#endif
#ifndef __noinline
#define __noinline __attribute__((noinline))
#endif
#ifndef __weak
#define __weak __attribute__((weak))
#endif
#define __uint(name, val) int (*name)[val]
#define __type(name, val) typeof(val) *name
#define __array(name, val) typeof(val) *name[]
#define __kconfig __attribute__((section(".kconfig")))
#define __ksym __attribute__((section(".ksyms")))
#define bpf_printk(fmt, ...) ((void)0)
#define offsetof(TYPE, MEMBER) __builtin_offsetof(TYPE, MEMBER)
static void *(*bpf_map_lookup_elem)(void *map, const void *key) = (void *) 1;
static long (*bpf_map_update_elem)(void *map, const void *key, const void *value, unsigned long long flags) = (void *) 2;
static long (*bpf_map_delete_elem)(void *map, const void *key) = (void *) 3;
static unsigned long long (*bpf_ktime_get_ns)(void) = (void *) 5;
static long (*bpf_trace_printk)(const char *fmt, unsigned int fmt_size, ...) = (void *) 6;
static unsigned int (*bpf_get_prandom_u32)(void) = (void *) 7;
static long (*bpf_tail_call)(void *ctx, void *prog_array_map, unsigned int index) = (void *) 12;
static unsigned long long (*bpf_ktime_get_boot_ns)(void) = (void *) 125;
#endif
