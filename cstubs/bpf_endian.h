/* Stub of bpf/bpf_endian.h for layout extraction only. */
#ifndef __BPF_ENDIAN_STUB__
#define __BPF_ENDIAN_STUB__
#define bpf_htons(x) __builtin_bswap16(x)
#define bpf_ntohs(x) __builtin_bswap16(x)
#define bpf_htonl(x) __builtin_bswap32(x)
#define bpf_ntohl(x) __builtin_bswap32(x)
#define bpf_cpu_to_be64(x) __builtin_bswap64(x)
#define bpf_be64_to_cpu(x) __builtin_bswap64(x)
#endif
