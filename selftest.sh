#!/bin/sh
# Must-fail corpus: applies each selftest/<ID>/*.patch to /repo, runs the check, reverts.
# m*.patch must yield VIOLATION (exit 1); benign*.patch must stay quiet (exit 0).
# The evidence file of the clean tree is saved and restored (mutated runs must not leave evidence behind).
ID="$1"; ONLY="$2"; rc=0; R=${GOVC_REPO:-/repo}
[ -f /verif/evidence/$ID.json ] && cp /verif/evidence/$ID.json /tmp/.evidence.$ID.$$ 
for p in /verif/selftest/$ID/*.patch; do
  n=$(basename $p .patch)
  case "$n" in *"$ONLY"*) ;; *) continue;; esac
  git -C $R apply "$p" || { echo "SELFTEST $ID $n: patch does not apply"; rc=1; continue; }
  out=$(/verif/check $ID quick 2>&1); code=$?
  git -C $R apply -R "$p"
  case "$n" in
    benign*) if [ $code -eq 0 ]; then echo "SELFTEST $ID $n: ok (quiet)"; else echo "SELFTEST $ID $n: FALSE ALARM"; echo "$out" | tail -5; rc=1; fi;;
    *) if [ $code -eq 1 ] && echo "$out" | grep -q "^VIOLATION property=$ID"; then echo "SELFTEST $ID $n: ok (caught: $(echo "$out" | grep -c '^VIOLATION') obligations, $(echo "$out" | grep '^VIOLATION' | grep -vc no-failing-input-found) replayed on real code)"; else echo "SELFTEST $ID $n: MISSED (exit $code)"; echo "$out" | tail -5; rc=1; fi;;
  esac
done
[ -f /tmp/.evidence.$ID.$$ ] && mv /tmp/.evidence.$ID.$$ /verif/evidence/$ID.json
rm -rf /verif/replays/$ID
exit $rc
