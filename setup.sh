#!/bin/sh
# Offline setup: build govc and warm the Go build cache (export data) for the packages under contract.
set -e
export PATH=/opt/veriftools/go1.26.8/bin:$PATH GOTOOLCHAIN=local GOFLAGS=-mod=mod GOPROXY=off GOSUMDB=off CGO_ENABLED=0
cd /verif && ./build.sh
# warm export data: one go list -export per module that has packages under contract
python3 - <<'PY'
import json,subprocess,os
props=json.load(open('/verif/props.json'))
bymod={}
for p in props.values():
    bymod.setdefault(p.get('module','.'),set()).update(p.get('packages',[]))
for mod,pkgs in bymod.items():
    subprocess.run(['go','list','-export','-tags=verif']+sorted(pkgs),cwd=os.path.join('/repo',mod),stdout=subprocess.DEVNULL,check=False)
PY
