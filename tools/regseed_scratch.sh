#!/bin/bash
# regseed_scratch.sh ROUND ID NAME : like regseed.sh but runs the check on the scratch worktree /tmp/devwt
# (used while /repo is busy with the self-test corpus); /tmp/devwt must be at /repo's HEAD.
r=$1; id=$2; name=$3
d=/verif/seeded/${id}_r${r}_${name}; mkdir -p $d
cp /tmp/seedout${r}_${id}/patch.diff /tmp/seedout${r}_${id}/demo_test.go /tmp/seedout${r}_${id}/meta.json $d/
git -C /repo worktree remove --force /tmp/seedwt${r}_${id}
rm -rf /tmp/seedout${r}_${id} /tmp/seed${r}_prompt_${id}.txt
git -C /tmp/devwt apply $d/patch.diff || { echo "patch does not apply"; exit 1; }
out=$(GOVC_REPO=/tmp/devwt /verif/bin/govc check -prop $id 2>&1); code=$?
git -C /tmp/devwt apply -R $d/patch.diff
echo "check $id with seed applied (scratch): exit=$code violations=$(echo "$out" | grep -c '^VIOLATION')"
echo "$out" | grep "^VIOLATION" | head -3
