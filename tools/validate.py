#!/opt/veriftools/pyvenv/bin/python3
"""Validates MANIFEST.json and every committed evidence file against the schemas (run before committing)."""
import json, jsonschema, sys, os
ok = True
m = json.load(open('/verif/MANIFEST.json'))
jsonschema.validate(m, json.load(open('/root/.vp/MANIFEST.schema.json')))
es = json.load(open('/root/.vp/EVIDENCE.schema.json'))
for c in m['checks']:
    f = c['evidence_file']
    if not os.path.exists(f):
        print("MISSING evidence", f); ok = False; continue
    ev = json.load(open(f))
    try:
        jsonschema.validate(ev, es)
    except Exception as e:
        print("INVALID", f, str(e)[:200]); ok = False; continue
    cov = ev['coverage']
    if ev['level'] == 'proof' and cov.get('obligations') != cov.get('discharged'):
        print("MISMATCH", f, cov.get('obligations'), cov.get('discharged')); ok = False
    if ev.get('violations'):
        print("VIOLATIONS recorded in", f); ok = False
    print("%s: level=%s obligations=%s discharged=%s wall=%ss" % (c['property_id'], ev['level'], cov.get('obligations'), cov.get('discharged'), ev['wall_s']))
sys.exit(0 if ok else 1)
