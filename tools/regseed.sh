#!/bin/bash
# regseed.sh ROUND ID NAME : registers /tmp/seedoutR_ID as /verif/seeded/ID_rR_NAME, removes the worktree, runs seedcheck
r=$1; id=$2; name=$3
d=/verif/seeded/${id}_r${r}_${name}; mkdir -p $d
cp /tmp/seedout${r}_${id}/patch.diff /tmp/seedout${r}_${id}/demo_test.go /tmp/seedout${r}_${id}/meta.json $d/
git -C /repo worktree remove --force /tmp/seedwt${r}_${id}
rm -rf /tmp/seedout${r}_${id} /tmp/seed${r}_prompt_${id}.txt
/verif/tools/seedcheck.sh $id $d/patch.diff 2>&1 | tail -4
