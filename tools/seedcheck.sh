#!/bin/sh
# seedcheck.sh <PROP> <patch>: applies a seeded change to /repo, runs the property's quick check, reverts.
PROP=$1; PATCH=$2
git -C /repo apply $PATCH || { echo "patch does not apply to /repo"; exit 2; }
cp /verif/evidence/$PROP.json /tmp/.ev.$PROP.$$ 2>/dev/null
OUT=$(/verif/check $PROP quick 2>&1); CODE=$?
git -C /repo apply -R $PATCH
[ -f /tmp/.ev.$PROP.$$ ] && mv /tmp/.ev.$PROP.$$ /verif/evidence/$PROP.json
rm -rf /verif/replays/$PROP
echo "check $PROP with seed applied: exit=$CODE violations=$(echo "$OUT" | grep -c "^VIOLATION")"; echo "$OUT" | grep "^VIOLATION\|^UNDECIDED" | head -4
