#!/usr/bin/env python3
"""Generates /verif/MANIFEST.json from /verif/claims.json (claimed checks) and /verif/na.json (not-applicable reasons)."""
import json, subprocess
claims = json.load(open('/verif/claims.json'))
na = json.load(open('/verif/na.json'))
props = [json.loads(l)['id'] for l in open('/verif/properties.jsonl')]
hooks = subprocess.run(['git','-C','/repo','log','--format=%H %s'],capture_output=True,text=True).stdout.splitlines()
hook_commits = [l.split()[0] for l in hooks if ' verif hook:' in ' '+l.split(' ',1)[1]]
checks = []
for pid in props:
    if pid in claims:
        c = claims[pid]
        checks.append({
            "property_id": pid,
            "quick_cmd": f"./check {pid} quick",
            "thorough_cmd": f"./check {pid} thorough",
            "evidence_file": f"/verif/evidence/{pid}.json",
            "replay_cmd_template": "cat {path}",
            "engine": "govc",
            "level_claimed": {"category": c.get("category","proof"), "text": c["text"], "design_ref": c.get("design_ref","DESIGN.md §4 "+pid)},
            "level_note": c["note"],
            "technique": c.get("technique","contract-based deductive verification: weakest-precondition VCs generated from go/ssa of the real functions against //@ contracts, discharged by z3/cvc5"),
        })
not_app = []
for pid in props:
    if pid not in claims:
        not_app.append({"property_id": pid, "reason": na.get(pid, "planned in DESIGN.md §4 but its contracts were not brought to discharge in the time available; no check is claimed")})
m = {
 "version": 1,
 "setup_cmd": "cd /verif && ./setup.sh",
 "hooks": {"guard": "verif", "enable": "go build -tags verif (contract files zz_verif_contracts.go are comment-only and compiled only under this tag)",
           "baseline_off_cmd": json.load(open('/root/.vp/BASELINE.json'))['cmd'],
           "source_commits": hook_commits, "add_only": True},
 "engines": [{"name": "govc", "path": "/verif/govc", "serves_properties": sorted(claims.keys()),
              "kind_free_text": "verification-condition generator over go/ssa (x/tools v0.50.0) for //@ contracts kept in guarded comment-only files in /repo; obligations discharged by z3 4.8.12, z3 5.1.0 and cvc5 1.0 (raced)"}],
 "checks": checks,
 "not_applicable": not_app,
 "notes": "See DESIGN.md. A property is claimed only when every obligation of its check discharges on the pinned tree and its must-fail patches (selftest/<id>) are caught.",
}
json.dump(m, open('/verif/MANIFEST.json','w'), indent=1)
print("MANIFEST: %d checks, %d not applicable" % (len(checks), len(not_app)))
