#!/bin/sh
# seedverify.sh <SEEDID> <PROP> <patch> <demo_test.go> <pkgdir> <run-regexp>
# Confirms a seeded change in a scratch worktree (demo passes on pristine code, fails with the change),
# stores it under /verif/seeded/<SEEDID>/, then runs the property's check against /repo with the change applied.
SID=$1; PROP=$2; PATCH=$3; DEMO=$4; PKG=$5; RUN=$6
export PATH=/opt/veriftools/go1.26.8/bin:$PATH GOTOOLCHAIN=local GOFLAGS=-mod=mod GOPROXY=off GOSUMDB=off CGO_ENABLED=0
WT=/tmp/sv_$SID
git -C /repo worktree remove --force $WT 2>/dev/null
git -C /repo worktree add -q --detach $WT HEAD || exit 2
cp $DEMO $WT/$PKG/zz_seed_demo_test.go
( cd $WT && go test -vet=off -count=1 -run "$RUN" ./$PKG/ >/tmp/sv_$SID.pristine.log 2>&1 ); P=$?
( cd $WT && git apply $PATCH ) || { echo "patch does not apply"; exit 2; }
( cd $WT && go build ./$PKG/ >/tmp/sv_$SID.build.log 2>&1 ); B=$?
( cd $WT && go test -vet=off -count=1 -run "$RUN" ./$PKG/ >/tmp/sv_$SID.changed.log 2>&1 ); C=$?
echo "seed $SID: demo on pristine exit=$P (want 0); build with change exit=$B (want 0); demo with change exit=$C (want !=0)"
git -C /repo worktree remove --force $WT
mkdir -p /verif/seeded/$SID && cp $PATCH /verif/seeded/$SID/patch.diff && cp $DEMO /verif/seeded/$SID/demo_test.go
# run my check with the change applied to /repo
git -C /repo apply $PATCH || { echo "patch does not apply to /repo"; exit 2; }
cp /verif/evidence/$PROP.json /tmp/.ev.$PROP.$$ 2>/dev/null
OUT=$(/verif/check $PROP quick 2>&1); CODE=$?
git -C /repo apply -R $PATCH
[ -f /tmp/.ev.$PROP.$$ ] && mv /tmp/.ev.$PROP.$$ /verif/evidence/$PROP.json
rm -rf /verif/replays/$PROP
echo "check $PROP with seed applied: exit=$CODE"; echo "$OUT" | grep -c "^VIOLATION" ; echo "$OUT" | grep "^VIOLATION" | head -3
