#!/usr/bin/env python3
"""seedprep.py ROUND ID... : prepares /tmp/seedwtR_<ID> (worktree without contract files), /tmp/seedoutR_<ID> and
/tmp/seedR_prompt_<ID>.txt for an independent seeding sub-agent (property text only; earlier seeds listed)."""
import json,subprocess,os,glob,sys
rnd=sys.argv[1]; ids=sys.argv[2:]
tmpl=open('/tmp/seed_prompt.txt').read().replace('`git stash` the source change: must pass','save the change with `git diff > OUT/my.patch`, revert it with `git checkout -- <file>`, run (must pass), re-apply with `git apply`; do NOT use git stash, it is shared between worktrees')
prev={}
for d in glob.glob('/verif/seeded/*/meta.json'):
    m=json.load(open(d)); prev.setdefault(m['property'],[]).append((m.get('breaks') or m.get('summary') or '')[:400])
for l in open('/verif/properties.jsonl'):
    p=json.loads(l)
    if p['id'] in ids:
        id=p['id']; wt=f'/tmp/seedwt{rnd}_{id}'; out=f'/tmp/seedout{rnd}_{id}'
        subprocess.run(['git','-C','/repo','worktree','remove','--force',wt],capture_output=True)
        os.makedirs(out,exist_ok=True)
        subprocess.run(['git','-C','/repo','worktree','add','--detach',wt,'HEAD','-q'])
        files=subprocess.run('git ls-files | grep zz_verif_contracts.go',shell=True,cwd=wt,capture_output=True,text=True).stdout.split()
        subprocess.run(['git','rm','-q']+files,cwd=wt)
        subprocess.run(['git','-c','user.name=seed','-c','user.email=s@x','commit','-qm','seed base: drop contract files'],cwd=wt)
        t=tmpl.replace('WT',wt).replace('OUT',out)
        t+=f"{p['id']}: {p['title']}\nStatement: {p['statement']}\nQuantified over: {p['quantifier']['text']}\nAnchors (files): {', '.join(p['anchors']['files'])}\nMechanism: {json.dumps(p['anchors']['mechanism'])}\n"
        if prev.get(id):
            t+="\nEarlier rounds already used the following change(s) for this property - make a DIFFERENT change, in a different function if the anchors allow:\n"+"\n".join("- "+x for x in prev[id])+"\n"
        t+="\nKeep your tool outputs small (pipe long go test output through tail -30). Find the directory containing go.mod for the package you test (the repo root for most packages; lib/datastructures has its own module).\n"
        open(f'/tmp/seed{rnd}_prompt_{id}.txt','w').write(t)
        print('prepared',id)
