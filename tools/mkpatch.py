#!/usr/bin/env python3
"""mkpatch.py ID NAME FILE OLD NEW : makes /verif/selftest/ID/NAME.patch by replacing OLD with NEW (first occurrence) in /repo/FILE."""
import sys, subprocess, os
pid, name, path, old, new = sys.argv[1:6]
full = os.path.join('/repo', path)
s = open(full).read()
assert s.count(old) >= 1, "pattern not found: " + old
open(full, 'w').write(s.replace(old, new, 1))
os.makedirs(f'/verif/selftest/{pid}', exist_ok=True)
d = subprocess.run(['git', '-C', '/repo', 'diff'], capture_output=True, text=True).stdout
open(f'/verif/selftest/{pid}/{name}.patch', 'w').write(d)
subprocess.run(['git', '-C', '/repo', 'checkout', '--', path])
print("wrote", f'/verif/selftest/{pid}/{name}.patch', len(d.splitlines()), "lines")
