// Replay witness for C37 (kept with the check; injected with `go test -overlay`, never written to /repo).
// It fails exactly when two distinct identities get the same length-limited name because a name that is kept
// verbatim imitates a shortened one (marker + hash text) when the limit leaves more room than the hash needs.
package hash

import (
	"strings"
	"testing"
)

func TestGovcReplayShortenedNameImitated(t *testing.T) {
	for _, max := range []int{45, 128, 256} {
		for _, prefix := range []string{"", "cali-pri-"} {
			long := strings.Repeat("x", max+10)               // identity 1: too long, gets shortened
			shortened := GetLengthLimitedID(prefix, long, max) // prefix + "_" + hash text
			imitation := shortened[len(prefix):]               // identity 2: begins with the marker
			if imitation == long || len(prefix)+len(imitation) > max {
				continue
			}
			if got := GetLengthLimitedID(prefix, imitation, max); got == shortened {
				t.Fatalf("GOVC-REPLAY-REPRODUCED: distinct identities %q... (len %d) and %q get the same name %q (prefix %q, limit %d)",
					long[:8], len(long), imitation, got, prefix, max)
			}
		}
	}
}
