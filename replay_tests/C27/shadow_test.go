// Replay witness for C27 (kept with the check; injected with `go test -overlay`, never written to /repo).
// It fails exactly when a value from a LOWER-priority source, shadowed by a valid value from a higher-priority
// source, still affects resolution (aborts it with an error or changes the result).
package config

import "testing"

func TestGovcReplayShadowedInvalidValue(t *testing.T) {
	// die-on-fail parameter: environment (high priority) holds a valid value, config file (lower) a bogus one
	c := New()
	if _, err := c.UpdateFrom(map[string]string{"DatastoreType": "kubernetes"}, EnvironmentVariable); err != nil {
		t.Fatalf("setup: %v", err)
	}
	_, err := c.UpdateFrom(map[string]string{"DatastoreType": "bogus"}, ConfigFile)
	if err != nil {
		t.Fatalf("GOVC-REPLAY-REPRODUCED: shadowed invalid value from the config file aborted resolution: %v", err)
	}
	if c.DatastoreType != "kubernetes" {
		t.Fatalf("GOVC-REPLAY-REPRODUCED: shadowed value changed the result: DatastoreType=%q", c.DatastoreType)
	}
}

func TestGovcReplayShadowedNoneValue(t *testing.T) {
	// non-zero parameter: "none" from a shadowed lower-priority source must be ignored, not rejected
	c := New()
	if _, err := c.UpdateFrom(map[string]string{"BPFJITHardening": "Strict"}, EnvironmentVariable); err != nil {
		t.Fatalf("setup: %v", err)
	}
	_, err := c.UpdateFrom(map[string]string{"BPFJITHardening": "none"}, ConfigFile)
	if err != nil {
		t.Fatalf("GOVC-REPLAY-REPRODUCED: shadowed 'none' for a non-zero parameter aborted resolution: %v", err)
	}
	if c.BPFJITHardening != "Strict" {
		t.Fatalf("GOVC-REPLAY-REPRODUCED: shadowed value changed the result: %q", c.BPFJITHardening)
	}
}
