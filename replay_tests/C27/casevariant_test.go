// Replay witness for C27 (kept with the check; injected with `go test -overlay`, never written to /repo).
// It fails exactly when the resolved value of a parameter that is given twice in ONE source under case-variant
// names (possible in a config file: the ini loader keeps keys as written) depends on the order in which the
// keys are read, i.e. on Go's randomised map iteration order.
package config

import "testing"

func TestGovcReplayCaseVariantKeysOrderDependent(t *testing.T) {
	data := []byte("[global]\nLogSeverityScreen = INFO\nlogseverityscreen = DEBUG\n")
	seen := map[string]int{}
	for i := 0; i < 400; i++ {
		kvs, err := LoadConfigFileData(data)
		if err != nil {
			t.Fatalf("setup: %v", err)
		}
		c := New()
		if _, err := c.UpdateFrom(kvs, ConfigFile); err != nil {
			t.Fatalf("setup: %v", err)
		}
		seen[c.LogSeverityScreen]++
	}
	if len(seen) > 1 {
		t.Fatalf("GOVC-REPLAY-REPRODUCED: the same config file resolves LogSeverityScreen differently from run to run: %v", seen)
	}
}
