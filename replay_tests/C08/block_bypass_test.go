// Replay witness for C08 (kept with the check; injected with `go test -overlay`, never written to /repo).
// It renders a real rule with three positive match blocks (source ports, destination ports, source CIDRs)
// through ProtoRuleToIptablesRules, interprets the rendered mark rules for one packet whose ports match but
// whose source address lies in NEITHER CIDR, and fails exactly when that packet is accepted: the scratch
// (ThisBlock) bit set by the second block is still set in the third, so the third block can no longer fail.
package rules_test

import (
	"net"
	"regexp"
	"strconv"
	"strings"
	"testing"

	v3 "github.com/projectcalico/api/pkg/apis/projectcalico/v3"

	"github.com/projectcalico/calico/felix/environment"
	"github.com/projectcalico/calico/felix/ipsets"
	"github.com/projectcalico/calico/felix/iptables"
	"github.com/projectcalico/calico/felix/proto"
	"github.com/projectcalico/calico/felix/rules"
	"github.com/projectcalico/calico/felix/types"
)

type pkt struct {
	proto        string
	src, dst     string
	sport, dport int
}

func inPorts(spec string, p int) bool {
	for _, r := range strings.Split(spec, ",") {
		lohi := strings.SplitN(r, ":", 2)
		lo, _ := strconv.Atoi(lohi[0])
		hi := lo
		if len(lohi) == 2 {
			hi, _ = strconv.Atoi(lohi[1])
		}
		if p >= lo && p <= hi {
			return true
		}
	}
	return false
}

func inNet(cidr, ip string) bool {
	_, n, err := net.ParseCIDR(cidr)
	if err != nil {
		panic(err)
	}
	return n.Contains(net.ParseIP(ip))
}

var markRe = regexp.MustCompile(`^(0x[0-9a-f]+|\d+)/(0x[0-9a-f]+|\d+)$`)

func parseMM(s string) (uint32, uint32) {
	m := markRe.FindStringSubmatch(s)
	a, _ := strconv.ParseUint(m[1], 0, 32)
	b, _ := strconv.ParseUint(m[2], 0, 32)
	return uint32(a), uint32(b)
}

// eval interprets the handful of iptables fragments these rules use. Returns final mark and whether RETURN hit.
func eval(t *testing.T, lines []string, p pkt) (mark uint32, returned bool) {
	for _, l := range lines {
		f := strings.Fields(l)
		match := true
		action := ""
		for i := 2; i < len(f); i++ { // skip "-A test"
			switch f[i] {
			case "-p":
				match = match && f[i+1] == p.proto
				i++
			case "--source":
				match = match && inNet(f[i+1], p.src)
				i++
			case "--destination":
				match = match && inNet(f[i+1], p.dst)
				i++
			case "-m":
				i++ // module name
			case "--source-ports":
				match = match && inPorts(f[i+1], p.sport)
				i++
			case "--destination-ports":
				match = match && inPorts(f[i+1], p.dport)
				i++
			case "--mark":
				v, m := parseMM(f[i+1])
				match = match && (mark&m) == v
				i++
			case "--jump":
				action = strings.Join(f[i+1:], " ")
				i = len(f)
			default:
				t.Fatalf("unhandled fragment %q in %q", f[i], l)
			}
		}
		if !match {
			continue
		}
		switch {
		case strings.HasPrefix(action, "MARK --set-mark "):
			v, m := parseMM(strings.TrimPrefix(action, "MARK --set-mark "))
			mark = (mark &^ m) | v // --set-mark v/m: zero the mask bits, or in v
		case action == "RETURN":
			return mark, true
		default:
			t.Fatalf("unhandled action %q", action)
		}
	}
	return mark, false
}

func TestGovcReplayThirdPositiveBlockBypass(t *testing.T) {
	cfg := rules.Config{
		IPSetConfigV4: ipsets.NewIPVersionConfig(ipsets.IPFamilyV4, "cali", nil, nil),
		IPSetConfigV6: ipsets.NewIPVersionConfig(ipsets.IPFamilyV6, "cali", nil, nil),
		MarkAccept:    0x80, MarkPass: 0x100, MarkScratch0: 0x200, MarkScratch1: 0x400,
		MarkDrop: 0x800, MarkEndpoint: 0xff000,
	}
	r := rules.NewRenderer(cfg, false)
	var sports, dports []*proto.PortRange
	for i := int32(0); i < 9; i++ { // 9 ranges = 18 slots > 15 -> 2 splits each -> blocks
		sports = append(sports, &proto.PortRange{First: 1000 + 10*i, Last: 1001 + 10*i})
		dports = append(dports, &proto.PortRange{First: 2000 + 10*i, Last: 2001 + 10*i})
	}
	pr := &proto.Rule{
		Action:   "allow",
		Protocol: &proto.Protocol{NumberOrName: &proto.Protocol_Name{Name: "tcp"}},
		SrcPorts: sports,
		DstPorts: dports,
		SrcNet:   []string{"10.1.0.0/16", "11.0.0.0/8"},
	}
	rs := r.ProtoRuleToIptablesRules(pr, 4, rules.RuleOwnerTypePolicy, rules.RuleDirIngress, 0,
		&types.PolicyID{Name: "default.foo", Kind: v3.KindGlobalNetworkPolicy}, "default", false)
	var lines []string
	for _, ir := range rs {
		lines = append(lines, iptables.NewIptablesRenderer("").RenderAppend(&ir, "test", "", &environment.Features{}))
	}
	for _, l := range lines {
		t.Log(l)
	}
	good := pkt{"tcp", "10.1.2.3", "12.0.0.1", 1000, 2000}
	bad := pkt{"tcp", "9.9.9.9", "12.0.0.1", 1000, 2000} // ports match, source in NEITHER CIDR
	mg, _ := eval(t, lines, good)
	mb, _ := eval(t, lines, bad)
	t.Logf("good: accept bit=%v   bad(src outside both CIDRs): accept bit=%v", mg&0x80 != 0, mb&0x80 != 0)
	if mg&0x80 == 0 {
		t.Errorf("matching packet not accepted")
	}
	if mb&0x80 != 0 {
		t.Errorf("GOVC-REPLAY-REPRODUCED: packet from 9.9.9.9 accepted by rule restricted to src 10.1.0.0/16,11.0.0.0/8")
	}
}
