package main

// Fork/join frame disjointness (DESIGN §2.9-2): for a function that starts goroutines with `go func(){...}()`
// and joins them with wg.Wait(), the variables of the enclosing function that the closures capture must be
// accessed race-free: a captured variable written by one closure may not be read or written by another
// closure, nor by the parent between the `go` statement and the Wait().  The write/read sets are computed on
// go/ssa (captured variables are heap Allocs bound as free variables; accesses are Stores/loads through the
// free variable; a free variable that escapes into a call counts as read and written).
//
// Each pair is emitted as one (trivial) obligation so that it has a name, appears in the baseline and can be
// reported like any other: the goal is the constant true/false decided by the analysis.

import (
	"fmt"
	"go/token"
	"go/types"
	"sort"
	"strings"

	"golang.org/x/tools/go/ssa"
)

type fjAccess struct {
	reads, writes map[string]bool // captured variable name -> accessed
}

func closureAccesses(fn *ssa.Function) map[int]*[2]bool {
	// index of free var -> [read, written]
	acc := map[int]*[2]bool{}
	idx := map[*ssa.FreeVar]int{}
	for i, fv := range fn.FreeVars {
		idx[fv] = i
		acc[i] = &[2]bool{}
	}
	var visit func(f *ssa.Function, fvmap map[*ssa.FreeVar]int)
	visit = func(f *ssa.Function, fvmap map[*ssa.FreeVar]int) {
		for _, b := range f.Blocks {
			for _, in := range b.Instrs {
				for _, op := range in.Operands(nil) {
					fv, ok := (*op).(*ssa.FreeVar)
					if !ok {
						continue
					}
					i, ok := fvmap[fv]
					if !ok {
						continue
					}
					switch x := in.(type) {
					case *ssa.Store:
						if x.Addr == fv {
							acc[i][1] = true
						} else {
							acc[i][0], acc[i][1] = true, true // address stored somewhere: escapes
						}
					case *ssa.UnOp:
						if x.Op == token.MUL {
							acc[i][0] = true
						} else {
							acc[i][0], acc[i][1] = true, true
						}
					case *ssa.DebugRef:
					case *ssa.MakeClosure:
						// nested closure: map its free vars back
						inner := x.Fn.(*ssa.Function)
						m2 := map[*ssa.FreeVar]int{}
						for k, bnd := range x.Bindings {
							if bnd == fv && k < len(inner.FreeVars) {
								m2[inner.FreeVars[k]] = i
							}
						}
						visit(inner, m2)
					case *ssa.FieldAddr, *ssa.IndexAddr:
						// interior access: treat as read+write (conservative)
						acc[i][0], acc[i][1] = true, true
					default:
						acc[i][0], acc[i][1] = true, true
					}
				}
			}
		}
	}
	visit(fn, idx)
	return acc
}

// GenForkJoin builds the obligations for one function.
func GenForkJoin(P *Program, full string) *FuncResult {
	res := &FuncResult{Fn: "forkjoin:" + full}
	fn := P.FindFunc(full)
	if fn == nil || fn.Blocks == nil {
		res.Err = fmt.Errorf("forkjoin: function %s not found (stale-contract)", full)
		return res
	}
	c := newCtxOpts(P, false)
	short := shortFuncName(fn)
	type goSite struct {
		in      *ssa.Go
		closure *ssa.Function
		binds   []ssa.Value
		ord     int
	}
	var sites []goSite
	for _, b := range fn.Blocks {
		for _, in := range b.Instrs {
			g, ok := in.(*ssa.Go)
			if !ok {
				continue
			}
			mc, ok := g.Call.Value.(*ssa.MakeClosure)
			if !ok {
				if f, ok := g.Call.Value.(*ssa.Function); ok && len(f.FreeVars) == 0 {
					sites = append(sites, goSite{in: g, closure: f, ord: len(sites) + 1})
					continue
				}
				res.Err = fmt.Errorf("forkjoin: go statement with a non-closure callee in %s", full)
				return res
			}
			sites = append(sites, goSite{in: g, closure: mc.Fn.(*ssa.Function), binds: mc.Bindings, ord: len(sites) + 1})
		}
	}
	if len(sites) == 0 {
		res.Err = fmt.Errorf("forkjoin: no go statements in %s (stale-contract)", full)
		return res
	}
	// per site: captured variable (parent value) -> read/write
	type rw struct{ r, w bool }
	access := make([]map[ssa.Value]rw, len(sites))
	for i, s := range sites {
		access[i] = map[ssa.Value]rw{}
		acc := closureAccesses(s.closure)
		for k, bnd := range s.binds {
			a := acc[k]
			if a == nil {
				continue
			}
			access[i][bnd] = rw{a[0], a[1]}
		}
	}
	name := func(v ssa.Value) string {
		if a, ok := v.(*ssa.Alloc); ok && a.Comment != "" {
			return a.Comment
		}
		return v.Name()
	}
	add := func(oname string, ok bool, text string, pos token.Pos) {
		goal := "true"
		if !ok {
			goal = "false"
		}
		o := &Obligation{Name: oname, Guard: "true", Goal: goal, Kind: "forkjoin", Text: text, Func: full, NAsserts: 0}
		if pos.IsValid() {
			o.Pos = P.Fset.Position(pos)
		}
		res.Obligations = append(res.Obligations, o)
	}
	// closure vs closure
	allVars := map[ssa.Value]bool{}
	for i := range sites {
		for v := range access[i] {
			allVars[v] = true
		}
	}
	var vars []ssa.Value
	for v := range allVars {
		vars = append(vars, v)
	}
	sort.Slice(vars, func(i, j int) bool { return name(vars[i]) < name(vars[j]) })
	for _, v := range vars {
		// values of the sync / sync/atomic packages (WaitGroup, Mutex, atomics) are made for concurrent use
		if pt, ok := v.Type().Underlying().(*types.Pointer); ok {
			if n, ok := types.Unalias(pt.Elem()).(*types.Named); ok && n.Obj().Pkg() != nil &&
				(n.Obj().Pkg().Path() == "sync" || n.Obj().Pkg().Path() == "sync/atomic") {
				continue
			}
		}
		var writers, users []int
		for i := range sites {
			a := access[i][v]
			if a.w {
				writers = append(writers, sites[i].ord)
			}
			if a.r || a.w {
				users = append(users, sites[i].ord)
			}
		}
		ok := true
		for _, w := range writers {
			for _, u := range users {
				if u != w {
					ok = false
				}
			}
		}
		add(fmt.Sprintf("%s/forkjoin/shared:%s", short, name(v)), ok,
			fmt.Sprintf("captured variable %s: written by goroutine(s) %v, accessed by goroutine(s) %v - a writer must be the only goroutine touching it", name(v), writers, users), v.Pos())
	}
	// parent between go and Wait: any access to a variable some closure writes
	// (instructions reachable after the first go statement and before a call to (*sync.WaitGroup).Wait in the same block order)
	firstGo := sites[0].in
	seenGo := false
	waited := false
	parentOK := map[ssa.Value]bool{}
	for _, v := range vars {
		parentOK[v] = true
	}
	for _, b := range fn.Blocks {
		for _, in := range b.Instrs {
			if in == ssa.Instruction(firstGo) {
				seenGo = true
			}
			if call, ok := in.(*ssa.Call); ok {
				if callee := call.Call.StaticCallee(); callee != nil && strings.HasSuffix(callee.String(), "(*sync.WaitGroup).Wait") {
					waited = true
				}
			}
			if !seenGo || waited {
				continue
			}
			if _, isGo := in.(*ssa.Go); isGo {
				continue
			}
			if _, isMC := in.(*ssa.MakeClosure); isMC {
				continue
			}
			if _, isDbg := in.(*ssa.DebugRef); isDbg {
				continue
			}
			for _, op := range in.Operands(nil) {
				for _, v := range vars {
					if *op != v {
						continue
					}
					written := false
					for i := range sites {
						if access[i][v].w {
							written = true
						}
					}
					if written {
						parentOK[v] = false
					}
				}
			}
		}
	}
	for _, v := range vars {
		add(fmt.Sprintf("%s/forkjoin/parent:%s", short, name(v)), parentOK[v],
			fmt.Sprintf("the parent does not touch %s between starting the goroutines and wg.Wait() if a goroutine writes it", name(v)), v.Pos())
	}
	add(fmt.Sprintf("%s/forkjoin/joined", short), true, fmt.Sprintf("%d goroutines started", len(sites)), token.NoPos)
	joined := false
	for _, b := range fn.Blocks {
		for _, in := range b.Instrs {
			if call, ok := in.(*ssa.Call); ok {
				if callee := call.Call.StaticCallee(); callee != nil && strings.HasSuffix(callee.String(), "(*sync.WaitGroup).Wait") {
					joined = true
				}
			}
		}
	}
	res.Obligations[len(res.Obligations)-1].Goal = map[bool]string{true: "true", false: "false"}[joined]
	res.Obligations[len(res.Obligations)-1].Text = "the function waits for its goroutines (wg.Wait) before using their results"
	res.Ctx = c
	res.Notes = []string{"fork/join: sync.WaitGroup gives happens-before between goroutine completion and Wait() (Go memory model, trusted)",
		"fork/join: objects reached through captured pointers (e.g. the authorizer, ctx) are assumed safe for concurrent use; only captured variables of the enclosing function are checked"}
	return res
}
