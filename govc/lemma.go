package main

import (
	"fmt"
	"go/types"
	"sort"
	"strings"

	"golang.org/x/tools/go/ssa"
)

// GenLemma turns a lemma into one obligation (its body must be valid given spec-function definitions
// and the lemmas/axioms it names with "uses").
func GenLemma(prog *Program, l *Lemma) (res *FuncResult) {
	res = &FuncResult{Fn: "lemma:" + l.Name}
	defer func() {
		if r := recover(); r != nil {
			if ue, ok := r.(unsupportedErr); ok {
				res.Err = fmt.Errorf("lemma %s: unsupported: %s", l.Name, ue.msg)
				return
			}
			panic(r)
		}
	}()
	c := newCtxOpts(prog, l.Opts["mathint"] == "true")
	g := &FuncGen{c: c, prog: prog, vals: map[ssa.Value]Val{}, params: map[string]Val{}, safety: false,
		postParts: map[int][]string{}, callOrd: map[string]int{}, safeSeen: map[string]int{}}
	var pkg *types.Package
	if l.Pkg != "" {
		pkg = prog.TypesPkgs[l.Pkg]
	}
	g.pkg = pkg
	g.opaque = map[string]bool{}
	for _, n := range strings.Fields(strings.ReplaceAll(l.Opts["opaque"], ",", " ")) {
		g.opaque[n] = true
	}
	g.fnName = "lemma:" + l.Name
	st := &State{heap: map[string]string{}, ghost: map[string]string{}, hwm: c.constant("hwm@0", SInt)}
	g.entry = st
	c.assert("(<= 0 hwm@0)")
	env := &Env{g: g, vars: map[string]Val{}, cur: st, old: st, pkg: pkg}
	for _, u := range l.Uses {
		found := false
		for _, l2 := range prog.Lemmas {
			if l2.Name == u {
				found = true
				c.assert(g.trBool(env, l2.Body, ""))
				if l2.Axiom {
					c.note("axiom (assumed, not proved): " + l2.Name + ": " + l2.Body.String())
				}
			}
		}
		if !found {
			g.unsup("lemma %s uses unknown lemma %s", l.Name, u)
		}
	}
	// top-level universally quantified variables are skolemised (free constants): equivalent for validity
	body := l.Body
	for {
		q, ok := body.(*EQuant)
		if !ok || !q.Forall {
			break
		}
		skolem := true
		for _, b := range q.Vars {
			if b.Lo != nil {
				skolem = false
			}
		}
		if !skolem {
			break
		}
		for _, b := range q.Vars {
			t, s := g.specType(b.Type, pkg)
			if t != nil {
				s = c.sortOf(t)
			}
			n := c.constant("sk_"+sanitize(b.Name), s)
			v := Val{T: n, S: s, GT: t}
			if t != nil && c.mathInts {
				if ii, ok := basicIntInfo(t); ok {
					lo, hi := intRange(ii)
					c.assert(fmt.Sprintf("(and (<= %s %s) (<= %s %s))", lo, n, n, hi))
				}
			}
			env = env.with(b.Name, v)
			g.modelVars = append(g.modelVars, ModelVar{b.Name, n})
		}
		body = q.Body
	}
	// an outermost constant-range binder is split into one obligation per value (proof strategy: exhaustive cases)
	if q, ok := body.(*EQuant); ok && q.Forall && len(q.Vars) > 0 && q.Vars[0].Lo != nil && l.Opts["nosplit"] != "true" {
		b := q.Vars[0]
		lo, hi := g.constInt(env, b.Lo), g.constInt(env, b.Hi)
		t, s := g.specType(b.Type, pkg)
		var rest Expr = q.Body
		if len(q.Vars) > 1 {
			rest = &EQuant{Forall: true, Vars: q.Vars[1:], Body: q.Body}
		}
		for k := lo; k < hi; k++ {
			var v Val
			if t != nil {
				ii, _ := basicIntInfo(t)
				v = Val{T: c.intLit64(k, ii.width), S: c.sortOf(t), GT: t}
			} else {
				v = Val{T: fmt.Sprint(k), S: s}
			}
			goal := g.trBool(env.with(b.Name, v), rest, "")
			g.addObl(&Obligation{Name: fmt.Sprintf("lemma:%s[%s=%d]", l.Name, b.Name, k), Guard: "true", Goal: goal, Kind: "lemma", Text: l.Body.String()})
		}
	} else {
		goal := g.trBool(env, body, "")
		g.addObl(&Obligation{Name: "lemma:" + l.Name, Guard: "true", Goal: goal, Kind: "lemma", Text: l.Body.String()})
	}
	for _, o := range g.obls {
		o.Func = "lemma:" + l.Name
	}
	res.Obligations = g.obls
	res.Ctx = c
	for n := range c.notes {
		res.Notes = append(res.Notes, n)
	}
	sort.Strings(res.Notes)
	return res
}

// ---- extra engines (layout, fork/join) are registered here ----

func runExtraEngines(P *Program, id string, pc *PropConfig) ([]*oblRun, []string) {
	return nil, nil
}
