package main

// Contract / spec language: lexer, parser and AST.
//
// Contracts live in comment-only files (zz_verif_contracts.go, build tag verif) in the
// packages of /repo, and in /verif/specs/*.spec for shared spec functions, lemmas and the
// assumed-contract library for external functions.  Every line of interest starts with
// "//@" (optional in .spec files).  A line whose first word is a clause keyword starts a
// new clause; any other line continues the previous clause.  "--" starts a comment.

import (
	"fmt"
	"os"
	"strings"
)

// ---------- AST ----------

type Expr interface{ String() string }

type (
	EIdent struct{ Name string }
	EInt   struct{ Text string } // decimal or 0x literal
	EStr   struct{ Val string }
	EBool  struct{ Val bool }
	ENil   struct{}
	EUnary struct {
		Op string
		X  Expr
	}
	EBinary struct {
		Op   string
		X, Y Expr
	}
	ECall struct {
		Fun  string // possibly qualified a.b
		Args []Expr
	}
	EField struct {
		X    Expr
		Name string
	}
	EIndex struct{ X, I Expr }
	ESlice struct{ X, Lo, Hi Expr }
	EOld   struct {
		X     Expr
		Entry bool // entry(e): the state at the entry of the function under verification (old(e) in a `ghost at call` statement means the state just before that call)
	}
	ECond  struct{ C, A, B Expr }
	EQuant struct {
		Forall bool
		Vars   []Binder
		Body   Expr
	}
	EDeref struct{ X Expr }
	ERange struct{ Lo, Hi Expr }
)

func (e *ERange) String() string { return e.Lo.String() + ".." + e.Hi.String() }

type Binder struct {
	Name   string
	Type   string // type text
	Lo, Hi Expr   // optional constant range "in lo..hi" (inclusive lo, exclusive hi) => expanded
}

func (e *EIdent) String() string  { return e.Name }
func (e *EInt) String() string    { return e.Text }
func (e *EStr) String() string    { return fmt.Sprintf("%q", e.Val) }
func (e *EBool) String() string   { return fmt.Sprint(e.Val) }
func (e *ENil) String() string    { return "nil" }
func (e *EUnary) String() string  { return e.Op + e.X.String() }
func (e *EBinary) String() string { return "(" + e.X.String() + " " + e.Op + " " + e.Y.String() + ")" }
func (e *ECall) String() string {
	var a []string
	for _, x := range e.Args {
		a = append(a, x.String())
	}
	return e.Fun + "(" + strings.Join(a, ", ") + ")"
}
func (e *EField) String() string { return e.X.String() + "." + e.Name }
func (e *EIndex) String() string { return e.X.String() + "[" + e.I.String() + "]" }
func (e *ESlice) String() string {
	lo, hi := "", ""
	if e.Lo != nil {
		lo = e.Lo.String()
	}
	if e.Hi != nil {
		hi = e.Hi.String()
	}
	return e.X.String() + "[" + lo + ":" + hi + "]"
}
func (e *EOld) String() string {
	if e.Entry {
		return "entry(" + e.X.String() + ")"
	}
	return "old(" + e.X.String() + ")"
}
func (e *EDeref) String() string { return "*" + e.X.String() }
func (e *ECond) String() string {
	return "(" + e.C.String() + " ? " + e.A.String() + " : " + e.B.String() + ")"
}
func (e *EQuant) String() string {
	q := "exists"
	if e.Forall {
		q = "forall"
	}
	var vs []string
	for _, b := range e.Vars {
		s := b.Name + " " + b.Type
		if b.Lo != nil {
			s += " in " + b.Lo.String() + ".." + b.Hi.String()
		}
		vs = append(vs, s)
	}
	return "(" + q + " " + strings.Join(vs, ", ") + " :: " + e.Body.String() + ")"
}

// ---------- contract structures ----------

type Param struct{ Name, Type string }

type SpecFunc struct {
	Name    string
	Params  []Param
	Ret     string
	Body    Expr // nil => uninterpreted
	Rec     bool
	File    string
	Line    int
	Opaque  bool
	Macro   bool // expanded inline in the caller's state (may read the heap)
	BodyTxt string
	Pkg     string
}

type Lemma struct {
	Name  string
	Body  Expr
	Axiom bool // assumed, not proved; listed in evidence
	Props []string
	File  string
	Line  int
	Uses  []string // names of lemmas/axioms to assume when proving this one
	Opts  map[string]string
	Pkg   string
}

type LoopSpec struct {
	Invariants []Clause
	Decreases  Expr
	SplitVar   string
	SplitLo    int
	SplitHi    int
	Unroll     int
	Uses       []Expr
}

type Clause struct {
	E    Expr
	Text string
	Line int
}

type GhostAt struct {
	Callee  string // callee name suffix
	Ordinal int    // 0 = all
	Stmts   []GhostStmt
}
type GhostStmt struct {
	Kind string // "set" or "check"
	Var  string
	E    Expr
	Text string
}

type FuncContract struct {
	Name     string // qualified name as go/ssa prints it, relative to package: "(*T).M", "F"
	Requires []Clause
	Ensures  []Clause
	Assigns  []Expr // nil && !AssignsSet => unspecified (= anything)
	AssignsNothing bool
	AssignsSet     bool
	Loops    map[int]*LoopSpec
	Trusted  bool
	Pure     bool
	Inline   bool
	Props    []string
	Options  map[string]string
	ParamNames []string // for external functions: positional names
	ResultNames []string
	Ghosts   []GhostAt
	Asserts  []Clause // extra "assert" not used yet
	Uses     []Expr   // lemma instances assumed in this function's VCs: name or name(args)
	File     string
	Line     int
	Pkg      string
}

type GhostVar struct {
	Name, Type string
}

// GhostField: model state of a data structure (e.g. the set of CIDRs a trie holds), addressed like a field.
type GhostField struct {
	Struct, Name, Type string
	Pkg                string
}

type ContractFile struct {
	Path      string
	SpecFuncs []*SpecFunc
	Lemmas    []*Lemma
	Funcs     []*FuncContract
	Ghosts    []GhostVar
	GhostFields []GhostField
	Layouts   []LayoutClause
}

type LayoutClause struct {
	Text  string
	Props []string
	Line  int
	Pkg   string
}

// ---------- lexer ----------

type tok struct {
	kind string // ident int str op eof
	text string
}

type lexer struct {
	toks []tok
	pos  int
	src  string
}

var ops = []string{"<==>", "==>", "<<", ">>", "&^", "&&", "||", "==", "!=", "<=", ">=", "::", "..",
	"+", "-", "*", "/", "%", "&", "|", "^", "<", ">", "!", "(", ")", "[", "]", ",", ".", ":", "?", "=", "{", "}", "#"}

func lex(s string) ([]tok, error) {
	var out []tok
	i := 0
	for i < len(s) {
		c := s[i]
		switch {
		case c == ' ' || c == '\t' || c == '\n' || c == '\r':
			i++
		case c == '"':
			j := i + 1
			var b strings.Builder
			for j < len(s) && s[j] != '"' {
				if s[j] == '\\' && j+1 < len(s) {
					j++
					switch s[j] {
					case 'n':
						b.WriteByte('\n')
					case 't':
						b.WriteByte('\t')
					default:
						b.WriteByte(s[j])
					}
				} else {
					b.WriteByte(s[j])
				}
				j++
			}
			if j >= len(s) {
				return nil, fmt.Errorf("unterminated string in %q", s)
			}
			out = append(out, tok{"str", b.String()})
			i = j + 1
		case c >= '0' && c <= '9':
			j := i
			for j < len(s) && (isAlnum(s[j])) {
				j++
			}
			// do not swallow ".." range operator
			out = append(out, tok{"int", s[i:j]})
			i = j
		case isAlpha(c):
			j := i
			for j < len(s) && (isAlnum(s[j]) || s[j] == '$') {
				j++
			}
			out = append(out, tok{"ident", s[i:j]})
			i = j
		default:
			matched := false
			for _, op := range ops {
				if strings.HasPrefix(s[i:], op) {
					out = append(out, tok{"op", op})
					i += len(op)
					matched = true
					break
				}
			}
			if !matched {
				return nil, fmt.Errorf("bad character %q in %q", c, s)
			}
		}
	}
	out = append(out, tok{"eof", ""})
	return out, nil
}

func isAlpha(c byte) bool { return c == '_' || (c >= 'a' && c <= 'z') || (c >= 'A' && c <= 'Z') }
func isAlnum(c byte) bool { return isAlpha(c) || (c >= '0' && c <= '9') }

// ---------- parser ----------

type parser struct {
	toks []tok
	p    int
	src  string
}

func (p *parser) peek() tok { return p.toks[p.p] }
func (p *parser) next() tok { t := p.toks[p.p]; p.p++; return t }
func (p *parser) isOp(s string) bool {
	t := p.peek()
	return t.kind == "op" && t.text == s
}
func (p *parser) isIdent(s string) bool {
	t := p.peek()
	return t.kind == "ident" && t.text == s
}
func (p *parser) accept(s string) bool {
	if p.isOp(s) {
		p.p++
		return true
	}
	return false
}
func (p *parser) expect(s string) {
	if !p.accept(s) {
		panic(fmt.Errorf("expected %q at token %d (%q) in %q", s, p.p, p.peek().text, p.src))
	}
}

func ParseExpr(s string) (e Expr, err error) {
	defer func() {
		if r := recover(); r != nil {
			if er, ok := r.(error); ok {
				err = er
				return
			}
			panic(r)
		}
	}()
	toks, err := lex(s)
	if err != nil {
		return nil, err
	}
	p := &parser{toks: toks, src: s}
	e = p.parseExpr()
	if p.peek().kind != "eof" {
		return nil, fmt.Errorf("trailing tokens at %q in %q", p.peek().text, s)
	}
	return e, nil
}

func (p *parser) parseExpr() Expr {
	if p.isIdent("forall") || p.isIdent("exists") {
		return p.parseQuant()
	}
	return p.parseCond()
}

func (p *parser) parseQuant() Expr {
	q := &EQuant{Forall: p.next().text == "forall"}
	for {
		// names
		var names []string
		for {
			t := p.next()
			if t.kind != "ident" {
				panic(fmt.Errorf("binder name expected in %q", p.src))
			}
			names = append(names, t.text)
			// "a, b int" form: a comma directly after a name continues the name list
			if p.isOp(",") {
				p.p++
				continue
			}
			break
		}
		ty := p.parseTypeText()
		var lo, hi Expr
		if p.isIdent("in") {
			p.p++
			lo = p.parseAdd()
			p.expect("..")
			hi = p.parseAdd()
		}
		for _, n := range names {
			q.Vars = append(q.Vars, Binder{n, ty, lo, hi})
		}
		if p.accept(",") {
			continue
		}
		break
	}
	p.expect("::")
	q.Body = p.parseExpr()
	return q
}

// parseTypeText consumes a Go-like type and returns its text.
func (p *parser) parseTypeText() string {
	var b strings.Builder
	for {
		if p.accept("*") {
			b.WriteString("*")
			continue
		}
		if p.isOp("[") {
			p.p++
			if p.accept("]") {
				b.WriteString("[]")
				continue
			}
			t := p.next()
			p.expect("]")
			b.WriteString("[" + t.text + "]")
			continue
		}
		break
	}
	t := p.next()
	if t.kind != "ident" {
		panic(fmt.Errorf("type expected at %q in %q", t.text, p.src))
	}
	if t.text == "map" {
		p.expect("[")
		k := p.parseTypeText()
		p.expect("]")
		v := p.parseTypeText()
		b.WriteString("map[" + k + "]" + v)
		return b.String()
	}
	if t.text == "set" { // spec-only: set[T] == map[T]bool view
		p.expect("[")
		k := p.parseTypeText()
		p.expect("]")
		b.WriteString("set[" + k + "]")
		return b.String()
	}
	b.WriteString(t.text)
	for p.isOp(".") && p.toks[p.p+1].kind == "ident" {
		p.p++
		b.WriteString("." + p.next().text)
	}
	return b.String()
}

func (p *parser) parseCond() Expr {
	c := p.parseIff()
	if p.accept("?") {
		a := p.parseExpr()
		p.expect(":")
		b := p.parseExpr()
		return &ECond{c, a, b}
	}
	return c
}

func (p *parser) parseIff() Expr {
	x := p.parseImplies()
	for p.isOp("<==>") {
		p.p++
		y := p.parseImplies()
		x = &EBinary{"<==>", x, y}
	}
	return x
}

func (p *parser) parseImplies() Expr {
	x := p.parseOr()
	if p.isOp("==>") {
		p.p++
		var y Expr
		if p.isIdent("forall") || p.isIdent("exists") {
			y = p.parseQuant()
		} else {
			y = p.parseImplies()
		}
		return &EBinary{"==>", x, y}
	}
	return x
}

func (p *parser) parseOr() Expr {
	x := p.parseAnd()
	for p.isOp("||") {
		p.p++
		x = &EBinary{"||", x, p.parseAnd()}
	}
	return x
}

func (p *parser) parseAnd() Expr {
	x := p.parseCmp()
	for p.isOp("&&") {
		p.p++
		if p.isIdent("forall") || p.isIdent("exists") {
			x = &EBinary{"&&", x, p.parseQuant()}
			return x
		}
		x = &EBinary{"&&", x, p.parseCmp()}
	}
	return x
}

func (p *parser) parseCmp() Expr {
	x := p.parseAdd()
	for {
		t := p.peek()
		if t.kind == "op" && (t.text == "==" || t.text == "!=" || t.text == "<" || t.text == "<=" || t.text == ">" || t.text == ">=") {
			p.p++
			x = &EBinary{t.text, x, p.parseAdd()}
			continue
		}
		if t.kind == "ident" && t.text == "in" {
			// k in m  (map membership)
			p.p++
			x = &EBinary{"in", x, p.parseAdd()}
			continue
		}
		return x
	}
}

func (p *parser) parseAdd() Expr {
	x := p.parseMul()
	for {
		t := p.peek()
		if t.kind == "op" && (t.text == "+" || t.text == "-" || t.text == "|" || t.text == "^") {
			p.p++
			x = &EBinary{t.text, x, p.parseMul()}
			continue
		}
		return x
	}
}

func (p *parser) parseMul() Expr {
	x := p.parseUnary()
	for {
		t := p.peek()
		if t.kind == "op" && (t.text == "*" || t.text == "/" || t.text == "%" || t.text == "<<" || t.text == ">>" || t.text == "&" || t.text == "&^") {
			p.p++
			x = &EBinary{t.text, x, p.parseUnary()}
			continue
		}
		return x
	}
}

func (p *parser) parseUnary() Expr {
	t := p.peek()
	if t.kind == "op" {
		switch t.text {
		case "!", "-", "^":
			p.p++
			return &EUnary{t.text, p.parseUnary()}
		case "*":
			p.p++
			return &EDeref{p.parseUnary()}
		}
	}
	return p.parsePostfix()
}

func (p *parser) parsePostfix() Expr {
	x := p.parsePrimary()
	for {
		switch {
		case p.isOp(".") && p.toks[p.p+1].kind == "op" && p.toks[p.p+1].text == "*":
			p.p += 2
			x = &EField{x, "*"}
		case p.isOp("[") && p.toks[p.p+1].kind == "op" && p.toks[p.p+1].text == "*" && p.toks[p.p+2].kind == "op" && p.toks[p.p+2].text == "]":
			p.p += 3
			x = &EIndex{x, &EIdent{"*"}}
		case p.isOp(".") && p.toks[p.p+1].kind == "ident":
			p.p++
			name := p.next().text
			if id, ok := x.(*EIdent); ok && p.isOp("(") {
				// qualified call a.b(...)  -- only if a is not a known value; decided at translation
				p.p++
				args := p.parseArgs()
				x = &ECall{Fun: id.Name + "." + name, Args: args}
				continue
			}
			x = &EField{x, name}
		case p.isOp("["):
			p.p++
			var lo, hi Expr
			if p.accept(":") {
				if !p.isOp("]") {
					hi = p.parseExpr()
				}
				p.expect("]")
				x = &ESlice{x, nil, hi}
				continue
			}
			lo = p.parseExpr()
			if p.accept("..") {
				// index range lo..hi (exclusive), used in assigns clauses: s[0..4]
				hi = p.parseExpr()
				p.expect("]")
				x = &EIndex{x, &ERange{lo, hi}}
				continue
			}
			if p.accept(":") {
				if !p.isOp("]") {
					hi = p.parseExpr()
				}
				p.expect("]")
				x = &ESlice{x, lo, hi}
				continue
			}
			p.expect("]")
			x = &EIndex{x, lo}
		default:
			return x
		}
	}
}

func (p *parser) parseArgs() []Expr {
	var args []Expr
	if p.accept(")") {
		return args
	}
	for {
		args = append(args, p.parseExpr())
		if p.accept(",") {
			continue
		}
		p.expect(")")
		return args
	}
}

func (p *parser) parsePrimary() Expr {
	t := p.next()
	switch t.kind {
	case "int":
		return &EInt{t.text}
	case "str":
		return &EStr{t.text}
	case "ident":
		switch t.text {
		case "true":
			return &EBool{true}
		case "false":
			return &EBool{false}
		case "nil":
			return &ENil{}
		case "old":
			p.expect("(")
			e := p.parseExpr()
			p.expect(")")
			return &EOld{X: e}
		case "entry":
			if p.isOp("(") {
				p.expect("(")
				e := p.parseExpr()
				p.expect(")")
				return &EOld{X: e, Entry: true}
			}
		case "forall", "exists":
			p.p--
			return p.parseQuant()
		}
		if p.isOp("(") {
			p.p++
			return &ECall{Fun: t.text, Args: p.parseArgs()}
		}
		return &EIdent{t.text}
	case "op":
		if t.text == "(" {
			e := p.parseExpr()
			p.expect(")")
			return e
		}
		if t.text == "[" {
			// slice/array/pointer type conversion e.g. []byte(x) is not supported
		}
	}
	panic(fmt.Errorf("unexpected token %q in %q", t.text, p.src))
}

// ---------- contract file reader ----------

var clauseKeywords = map[string]bool{
	"spec": true, "lemma": true, "axiom": true, "func": true, "requires": true, "ensures": true,
	"assigns": true, "loop": true, "trusted": true, "pure": true, "inline": true, "property": true,
	"option": true, "ghost": true, "layout": true, "params": true, "results": true, "uses": true,
	"extfunc": true,
}

type rawClause struct {
	kw   string
	text string
	line int
}

func readClauses(path string, requirePrefix bool) ([]rawClause, error) {
	data, err := os.ReadFile(path)
	if err != nil {
		return nil, err
	}
	var out []rawClause
	for i, ln := range strings.Split(string(data), "\n") {
		s := strings.TrimSpace(ln)
		if strings.HasPrefix(s, "//@") {
			s = strings.TrimSpace(s[3:])
		} else if requirePrefix {
			continue
		} else if strings.HasPrefix(s, "//") || strings.HasPrefix(s, "#") {
			continue
		}
		if k := strings.Index(s, "--"); k >= 0 {
			s = strings.TrimSpace(s[:k])
		}
		if s == "" {
			continue
		}
		w := s
		if k := strings.IndexAny(s, " \t"); k >= 0 {
			w = s[:k]
		}
		if clauseKeywords[w] {
			out = append(out, rawClause{w, strings.TrimSpace(s[len(w):]), i + 1})
		} else if len(out) > 0 {
			out[len(out)-1].text += " " + s
		} else {
			return nil, fmt.Errorf("%s:%d: text before first clause", path, i+1)
		}
	}
	return out, nil
}

func ParseContractFile(path string, requirePrefix bool) (*ContractFile, error) {
	raws, err := readClauses(path, requirePrefix)
	if err != nil {
		return nil, err
	}
	cf := &ContractFile{Path: path}
	var cur *FuncContract
	var curLemma *Lemma
	fail := func(rc rawClause, err error) error {
		return fmt.Errorf("%s:%d: %s %s: %v", path, rc.line, rc.kw, rc.text, err)
	}
	for _, rc := range raws {
		switch rc.kw {
		case "spec":
			sf, err := parseSpecFunc(rc.text)
			if err != nil {
				return nil, fail(rc, err)
			}
			sf.File, sf.Line = path, rc.line
			cf.SpecFuncs = append(cf.SpecFuncs, sf)
			cur, curLemma = nil, nil
		case "lemma", "axiom":
			k := strings.Index(rc.text, ":")
			if k < 0 {
				return nil, fail(rc, fmt.Errorf("missing ':'"))
			}
			e, err := ParseExpr(rc.text[k+1:])
			if err != nil {
				return nil, fail(rc, err)
			}
			curLemma = &Lemma{Name: strings.TrimSpace(rc.text[:k]), Body: e, Axiom: rc.kw == "axiom", File: path, Line: rc.line, Opts: map[string]string{}}
			cf.Lemmas = append(cf.Lemmas, curLemma)
			cur = nil
		case "uses":
			if cur != nil {
				for _, part := range splitTop(rc.text) {
					e, err := ParseExpr(part)
					if err != nil {
						return nil, fail(rc, err)
					}
					cur.Uses = append(cur.Uses, e)
				}
				continue
			}
			if curLemma == nil {
				return nil, fail(rc, fmt.Errorf("uses outside lemma/func"))
			}
			curLemma.Uses = append(curLemma.Uses, strings.Fields(strings.ReplaceAll(rc.text, ",", " "))...)
		case "func", "extfunc":
			cur = &FuncContract{Name: strings.TrimSpace(rc.text), Loops: map[int]*LoopSpec{}, Options: map[string]string{}, File: path, Line: rc.line}
			if rc.kw == "extfunc" {
				cur.Trusted = true
			}
			cf.Funcs = append(cf.Funcs, cur)
			curLemma = nil
		case "ghost":
			if cur == nil || !strings.HasPrefix(strings.TrimSpace(rc.text), "at call ") {
				f := strings.Fields(rc.text)
				if len(f) == 3 && f[0] == "field" {
					// ghost field (*T).name TYPE : abstract (model) state attached to every object of struct type T
					k := strings.LastIndex(f[1], ".")
					if k < 0 {
						return nil, fail(rc, fmt.Errorf("ghost field (*T).name TYPE"))
					}
					st := strings.Trim(f[1][:k], "(*)")
					cf.GhostFields = append(cf.GhostFields, GhostField{Struct: st, Name: f[1][k+1:], Type: f[2]})
					continue
				}
				if len(f) == 2 && f[0] == "purefunc" {
					// ghost purefunc (*T).name : the function values stored in field `name` of struct T are pure and
					// deterministic (an assumption, listed in evidence); calls through the field are applications of
					// an uninterpreted function of the function value and the arguments
					k := strings.LastIndex(f[1], ".")
					if k < 0 {
						return nil, fail(rc, fmt.Errorf("ghost purefunc (*T).name"))
					}
					st := strings.Trim(f[1][:k], "(*)")
					cf.GhostFields = append(cf.GhostFields, GhostField{Struct: st, Name: "purefunc:" + f[1][k+1:], Type: "PUREFUNC"})
					continue
				}
				if len(f) != 2 {
					return nil, fail(rc, fmt.Errorf("ghost NAME TYPE"))
				}
				cf.Ghosts = append(cf.Ghosts, GhostVar{f[0], f[1]})
				continue
			}
			g, err := parseGhostAt(rc.text)
			if err != nil {
				return nil, fail(rc, err)
			}
			cur.Ghosts = append(cur.Ghosts, *g)
		case "layout":
			cf.Layouts = append(cf.Layouts, LayoutClause{Text: rc.text, Line: rc.line})
			cur, curLemma = nil, nil
		case "property":
			ps := strings.Fields(strings.ReplaceAll(rc.text, ",", " "))
			if cur != nil {
				cur.Props = append(cur.Props, ps...)
			} else if curLemma != nil {
				curLemma.Props = append(curLemma.Props, ps...)
			} else if len(cf.Layouts) > 0 {
				cf.Layouts[len(cf.Layouts)-1].Props = append(cf.Layouts[len(cf.Layouts)-1].Props, ps...)
			} else {
				return nil, fail(rc, fmt.Errorf("property outside func/lemma"))
			}
		case "option":
			f := strings.Fields(rc.text)
			if len(f) == 0 {
				return nil, fail(rc, fmt.Errorf("empty option"))
			}
			v := "true"
			if len(f) > 1 {
				v = strings.Join(f[1:], " ")
			}
			if cur != nil {
				cur.Options[f[0]] = v
			} else if curLemma != nil {
				curLemma.Opts[f[0]] = v
			} else {
				return nil, fail(rc, fmt.Errorf("option outside func/lemma"))
			}
		default:
			if cur == nil {
				return nil, fail(rc, fmt.Errorf("clause outside func"))
			}
			switch rc.kw {
			case "requires", "ensures":
				e, err := ParseExpr(rc.text)
				if err != nil {
					return nil, fail(rc, err)
				}
				c := Clause{e, rc.text, rc.line}
				if rc.kw == "requires" {
					cur.Requires = append(cur.Requires, c)
				} else {
					cur.Ensures = append(cur.Ensures, c)
				}
			case "assigns":
				cur.AssignsSet = true
				if strings.TrimSpace(rc.text) == "nothing" {
					cur.AssignsNothing = true
					continue
				}
				for _, part := range splitTop(rc.text) {
					e, err := ParseExpr(part)
					if err != nil {
						return nil, fail(rc, err)
					}
					cur.Assigns = append(cur.Assigns, e)
				}
			case "loop":
				f := strings.Fields(rc.text)
				if len(f) < 2 {
					return nil, fail(rc, fmt.Errorf("loop N kind ..."))
				}
				var n int
				if _, err := fmt.Sscanf(f[0], "%d", &n); err != nil {
					return nil, fail(rc, err)
				}
				ls := cur.Loops[n]
				if ls == nil {
					ls = &LoopSpec{}
					cur.Loops[n] = ls
				}
				rest := strings.TrimSpace(strings.TrimPrefix(strings.TrimSpace(rc.text[len(f[0]):]), f[1]))
				switch f[1] {
				case "invariant":
					e, err := ParseExpr(rest)
					if err != nil {
						return nil, fail(rc, err)
					}
					ls.Invariants = append(ls.Invariants, Clause{e, rest, rc.line})
				case "decreases":
					e, err := ParseExpr(rest)
					if err != nil {
						return nil, fail(rc, err)
					}
					ls.Decreases = e
				case "uses":
					for _, part := range splitTop(rest) {
						e, err := ParseExpr(part)
						if err != nil {
							return nil, fail(rc, err)
						}
						ls.Uses = append(ls.Uses, e)
					}
				case "split":
					// split VAR in LO..HI
					var v string
					var lo, hi int
					r := strings.ReplaceAll(rest, "..", " ")
					if _, err := fmt.Sscanf(r, "%s in %d %d", &v, &lo, &hi); err != nil {
						return nil, fail(rc, err)
					}
					ls.SplitVar, ls.SplitLo, ls.SplitHi = v, lo, hi
				case "unroll":
					if _, err := fmt.Sscanf(rest, "%d", &ls.Unroll); err != nil {
						return nil, fail(rc, err)
					}
				default:
					return nil, fail(rc, fmt.Errorf("unknown loop clause %q", f[1]))
				}
			case "trusted":
				cur.Trusted = true
			case "pure":
				cur.Pure = true
			case "inline":
				cur.Inline = true
			case "params":
				cur.ParamNames = strings.Fields(strings.ReplaceAll(rc.text, ",", " "))
			case "results":
				cur.ResultNames = strings.Fields(strings.ReplaceAll(rc.text, ",", " "))
			}
		}
	}
	return cf, nil
}

// splitTop splits on commas that are not nested in brackets.
func splitTop(s string) []string {
	var out []string
	depth, start := 0, 0
	for i, c := range s {
		switch c {
		case '(', '[':
			depth++
		case ')', ']':
			depth--
		case ',':
			if depth == 0 {
				out = append(out, strings.TrimSpace(s[start:i]))
				start = i + 1
			}
		}
	}
	if t := strings.TrimSpace(s[start:]); t != "" {
		out = append(out, t)
	}
	return out
}

// spec func NAME(a T, b U) R = EXPR      |  spec func NAME(a T) R   (uninterpreted)
func parseSpecFunc(text string) (sf *SpecFunc, err error) {
	defer func() {
		if r := recover(); r != nil {
			if er, ok := r.(error); ok {
				err = er
				return
			}
			panic(r)
		}
	}()
	text = strings.TrimSpace(text)
	rec := false
	if strings.HasPrefix(text, "rec ") {
		rec = true
		text = strings.TrimSpace(text[4:])
	}
	macro := false
	if strings.HasPrefix(text, "macro ") {
		macro = true
		text = "func " + text[6:]
	}
	if !strings.HasPrefix(text, "func ") {
		return nil, fmt.Errorf("expected 'spec func'")
	}
	text = strings.TrimSpace(text[5:])
	body := ""
	// find top-level '=' that is not part of ==, <=, >=, !=
	eq := -1
	depth := 0
	for i := 0; i < len(text); i++ {
		c := text[i]
		if c == '(' || c == '[' {
			depth++
		} else if c == ')' || c == ']' {
			depth--
		} else if c == '=' && depth == 0 {
			if i+1 < len(text) && text[i+1] == '=' {
				i++
				continue
			}
			if i > 0 && strings.ContainsRune("<>!=", rune(text[i-1])) {
				continue
			}
			eq = i
			break
		}
	}
	head := text
	if eq >= 0 {
		head = strings.TrimSpace(text[:eq])
		body = strings.TrimSpace(text[eq+1:])
	}
	toks, err := lex(head)
	if err != nil {
		return nil, err
	}
	p := &parser{toks: toks, src: head}
	nameTok := p.next()
	if nameTok.kind != "ident" {
		return nil, fmt.Errorf("spec func name expected")
	}
	sf = &SpecFunc{Name: nameTok.text, Rec: rec, BodyTxt: body, Macro: macro}
	p.expect("(")
	if !p.accept(")") {
		for {
			var names []string
			for {
				n := p.next()
				if n.kind != "ident" {
					return nil, fmt.Errorf("param name expected")
				}
				names = append(names, n.text)
				if p.isOp(",") {
					p.p++
					continue
				}
				break
			}
			ty := p.parseTypeText()
			for _, n := range names {
				sf.Params = append(sf.Params, Param{n, ty})
			}
			if p.accept(",") {
				continue
			}
			p.expect(")")
			break
		}
	}
	sf.Ret = p.parseTypeText()
	if p.peek().kind != "eof" {
		return nil, fmt.Errorf("junk after spec func header: %q", p.peek().text)
	}
	if body != "" {
		e, err := ParseExpr(body)
		if err != nil {
			return nil, err
		}
		sf.Body = e
	}
	return sf, nil
}

// ghost at call NAME#N: var = expr ; check expr
func parseGhostAt(text string) (*GhostAt, error) {
	text = strings.TrimSpace(text)
	if !strings.HasPrefix(text, "at call ") {
		return nil, fmt.Errorf("expected 'ghost at call NAME#N: ...'")
	}
	text = text[len("at call "):]
	k := strings.Index(text, ":")
	if k < 0 {
		return nil, fmt.Errorf("missing ':'")
	}
	head, rest := strings.TrimSpace(text[:k]), text[k+1:]
	g := &GhostAt{Callee: head}
	if h := strings.LastIndex(head, "#"); h >= 0 {
		g.Callee = head[:h]
		fmt.Sscanf(head[h+1:], "%d", &g.Ordinal)
	}
	for _, st := range strings.Split(rest, ";") {
		st = strings.TrimSpace(st)
		if st == "" {
			continue
		}
		if strings.HasPrefix(st, "check ") {
			e, err := ParseExpr(st[6:])
			if err != nil {
				return nil, err
			}
			g.Stmts = append(g.Stmts, GhostStmt{Kind: "check", E: e, Text: st[6:]})
			continue
		}
		eq := strings.Index(st, "=")
		if eq < 0 {
			return nil, fmt.Errorf("bad ghost statement %q", st)
		}
		e, err := ParseExpr(st[eq+1:])
		if err != nil {
			return nil, err
		}
		g.Stmts = append(g.Stmts, GhostStmt{Kind: "set", Var: strings.TrimSpace(st[:eq]), E: e, Text: st})
	}
	return g, nil
}
