package main

import (
	"regexp"
	"encoding/json"
	"flag"
	"fmt"
	"os"
	"path/filepath"
	"runtime"
	"sort"
	"strconv"
	"strings"
	"sync"
	"time"

	"golang.org/x/tools/go/ssa"
)

const verifRoot = "/verif"

type PropConfig struct {
	Module   string   `json:"module"`
	Packages []string `json:"packages"`
	Specs    []string `json:"specs"`
	Level    string   `json:"level"` // evidence level: proof | other
	Extra    []string `json:"extra"` // extra engines: "layout", "forkjoin:<func>"
	Assume   []string `json:"assumptions"`
	Bounded  []string `json:"bounded"`
	Replays  []CustomReplay `json:"replays"`
	CIncludes []string `json:"c_includes"` // headers (relative to felix/bpf-gpl) for C-side layout queries
	CFlags    []string `json:"c_flags"`
}

func loadProps() map[string]*PropConfig {
	data, err := os.ReadFile(filepath.Join(verifRoot, "props.json"))
	if err != nil {
		fatal(2, "props.json: %v", err)
	}
	m := map[string]*PropConfig{}
	if err := json.Unmarshal(data, &m); err != nil {
		fatal(2, "props.json: %v", err)
	}
	return m
}

func fatal(code int, format string, args ...interface{}) {
	fmt.Fprintf(os.Stderr, "govc: "+format+"\n", args...)
	os.Exit(code)
}

func (P *Program) sourceLine(p interface{ String() string }) string {
	s := p.String() // file:line:col
	parts := strings.Split(s, ":")
	if len(parts) < 2 {
		return s
	}
	ln, err := strconv.Atoi(parts[1])
	if err != nil {
		return s
	}
	data, err := os.ReadFile(parts[0])
	if err != nil {
		return s
	}
	lines := strings.Split(string(data), "\n")
	if ln-1 < len(lines) && ln >= 1 {
		return lines[ln-1]
	}
	return s
}

type unit struct {
	name string
	res  *FuncResult
}

var backEdgeSuffix = regexp.MustCompile(`(/preserve|/entry|/decreases)@b\d+`)

// canonObl drops the block number of the back edge from a loop obligation's name.
func canonObl(n string) string { return backEdgeSuffix.ReplaceAllString(n, "$1") }

func main() {
	if len(os.Args) < 2 {
		fatal(2, "usage: govc check|dump ...")
	}
	// go/packages runs the "go" found on PATH: make it the go1.26.8 the repo needs, offline.
	os.Setenv("PATH", "/opt/veriftools/go1.26.8/bin:"+os.Getenv("PATH"))
	for _, kv := range [][2]string{{"GOTOOLCHAIN", "local"}, {"GOFLAGS", "-mod=mod"}, {"GOPROXY", "off"}, {"GOSUMDB", "off"}, {"CGO_ENABLED", "0"}} {
		os.Setenv(kv[0], kv[1])
	}
	switch os.Args[1] {
	case "check":
		cmdCheck(os.Args[2:])
	case "dump":
		cmdDump(os.Args[2:])
	case "parse":
		for _, f := range os.Args[2:] {
			cf, err := ParseContractFile(f, strings.HasSuffix(f, ".go"))
			if err != nil {
				fatal(2, "%v", err)
			}
			fmt.Printf("%s: %d funcs, %d spec funcs, %d lemmas\n", f, len(cf.Funcs), len(cf.SpecFuncs), len(cf.Lemmas))
		}
	case "funcs":
		// govc funcs <module-dir> <pkg-pattern> [substring]: names of the SSA functions (debug aid)
		P, err := LoadProgram(os.Args[2], []string{os.Args[3]}, nil)
		if err != nil {
			fatal(2, "%v", err)
		}
		for _, fn := range P.AllSourceFuncs() {
			if len(os.Args) < 5 || strings.Contains(fn.String(), os.Args[4]) {
				fmt.Printf("%s\ttypeparams=%d typeargs=%d origin=%v\n", fn.String(), fn.TypeParams().Len(), len(fn.TypeArgs()), fn.Origin() != nil)
			}
		}
	default:
		fatal(2, "unknown command %s", os.Args[1])
	}
}

func hasProp(ps []string, id string) bool {
	for _, p := range ps {
		if p == id {
			return true
		}
	}
	return false
}

func specPaths(pc *PropConfig) []string {
	var out []string
	seen := map[string]bool{}
	for _, s := range append([]string{"prelude.spec", "std.spec"}, pc.Specs...) {
		if !filepath.IsAbs(s) {
			s = filepath.Join(verifRoot, "specs", s)
		}
		if !seen[s] {
			seen[s] = true
			out = append(out, s)
		}
	}
	return out
}

// extraEngines: the property's "extra" entries from props.json (e.g. "forkjoin:<function>"), set by the commands.
var extraEngines []string
var curProp *PropConfig

// generateUnits builds all verification units for a property.
func generateUnits(P *Program, id string, only string) ([]*unit, []string) {
	var units []*unit
	var problems []string
	var keys []string
	for k := range P.Contracts {
		keys = append(keys, k)
	}
	sort.Strings(keys)
	var mu sync.Mutex
	var wg sync.WaitGroup
	sem := make(chan struct{}, 8)
	for _, k := range keys {
		ct := P.Contracts[k]
		if !hasProp(ct.Props, id) {
			continue
		}
		if only != "" && !strings.Contains(k, only) {
			continue
		}
		if ct.Trusted {
			continue
		}
		fn := P.FindFunc(k)
		if fn == nil || fn.Blocks == nil {
			problems = append(problems, fmt.Sprintf("contract for %s: function not found in loaded packages (stale-contract)", k))
			continue
		}
		wg.Add(1)
		go func(k string, fn *ssa.Function, ct *FuncContract) {
			defer wg.Done()
			sem <- struct{}{}
			defer func() { <-sem }()
			r := GenFunction(P, fn, ct)
			mu.Lock()
			units = append(units, &unit{name: k, res: r})
			mu.Unlock()
		}(k, fn, ct)
	}
	wg.Wait()
	for _, l := range P.Lemmas {
		if !hasProp(l.Props, id) || l.Axiom {
			continue
		}
		if only != "" && !strings.Contains(l.Name, only) {
			continue
		}
		units = append(units, &unit{name: "lemma:" + l.Name, res: GenLemma(P, l)})
	}
	if curProp != nil && (only == "" || strings.Contains("layout", only)) {
		if r := GenLayout(P, id, curProp); r != nil {
			units = append(units, &unit{name: "layout", res: r})
		}
	}
	for _, ex := range extraEngines {
		if strings.HasPrefix(ex, "forkjoin:") {
			full := strings.TrimPrefix(ex, "forkjoin:")
			if only != "" && !strings.Contains(full, only) {
				continue
			}
			units = append(units, &unit{name: ex, res: GenForkJoin(P, full)})
		}
	}
	sort.Slice(units, func(i, j int) bool { return units[i].name < units[j].name })
	return units, problems
}

type oblRun struct {
	u   *unit
	o   *Obligation
	res *SolveResult
}

func solveAll(units []*unit, timeoutS int, all bool, dumpDir string) []*oblRun {
	var runs []*oblRun
	for _, u := range units {
		if u.res.Err != nil {
			continue
		}
		for _, o := range u.res.Obligations {
			runs = append(runs, &oblRun{u: u, o: o})
		}
	}
	var wg sync.WaitGroup
	ncpu := runtime.NumCPU()
	par := max(2, ncpu/2)
	if len(solverHints) > 0 {
		par = max(2, ncpu-2) // mostly one solver process per obligation
		// longest (by calibration time) first: shortens the makespan and keeps slow queries off the loaded tail
		sort.SliceStable(runs, func(i, j int) bool {
			return solverHints[runs[i].o.Name].seconds > solverHints[runs[j].o.Name].seconds
		})
	}
	sem := make(chan struct{}, par)
	for _, r := range runs {
		wg.Add(1)
		go func(r *oblRun) {
			defer wg.Done()
			sem <- struct{}{}
			defer func() { <-sem }()
			r.res = Solve(r.u.res.Ctx, r.o, timeoutS, all, dumpDir)
		}(r)
	}
	wg.Wait()
	return runs
}

func cmdDump(args []string) {
	fs := flag.NewFlagSet("dump", flag.ExitOnError)
	prop := fs.String("prop", "", "property id")
	only := fs.String("only", "", "substring filter on unit name")
	dir := fs.String("dir", "/tmp/govc-dump", "dump directory")
	timeout := fs.Int("timeout", 10, "per-obligation timeout (s)")
	all := fs.Bool("all", false, "wait for all solvers")
	fs.Parse(args)
	props := loadProps()
	pc := props[*prop]
	if pc == nil {
		fatal(2, "unknown property %s", *prop)
	}
	os.MkdirAll(*dir, 0o755)
	P, err := LoadProgram(pc.Module, pc.Packages, specPaths(pc))
	if err != nil {
		fatal(2, "%v", err)
	}
	extraEngines = pc.Extra
	customReplays = pc.Replays
	curProp = pc
	units, problems := generateUnits(P, *prop, *only)
	for _, p := range problems {
		fmt.Println("PROBLEM:", p)
	}
	for _, u := range units {
		if u.res.Err != nil {
			fmt.Printf("UNIT %s: ERROR %v\n", u.name, u.res.Err)
		}
	}
	runs := solveAll(units, *timeout, *all, *dir)
	for _, r := range runs {
		exp := ""
		if r.o.ExpectSat {
			exp = " (expect sat)"
		}
		fmt.Printf("%-8s %-7s %6.2fs %8d  %s%s  %v\n", r.res.Status, r.res.Solver, r.res.Seconds, r.res.SMTBytes, r.o.Name, exp, r.res.Per)
		if r.res.Status == "sat" && !r.o.ExpectSat {
			fmt.Printf("    model: %v\n", r.res.Model)
		}
		if r.res.Status == "error" {
			fmt.Printf("    %s\n", firstLines(r.res.Raw, 5))
		}
	}
}

func firstLines(s string, n int) string {
	ls := strings.Split(s, "\n")
	if len(ls) > n {
		ls = ls[:n]
	}
	return strings.Join(ls, "\n    ")
}

// ---------- check ----------

type Evidence struct {
	PropertyID  string                 `json:"property_id"`
	Tier        string                 `json:"tier"`
	Seed        int                    `json:"seed"`
	Level       string                 `json:"level"`
	Coverage    map[string]interface{} `json:"coverage"`
	Assumptions []string               `json:"assumptions"`
	WallS       float64                `json:"wall_s"`
	Violations  int                    `json:"violations"`
}

func readLines(path string) []string {
	data, err := os.ReadFile(path)
	if err != nil {
		return nil
	}
	var out []string
	for _, l := range strings.Split(string(data), "\n") {
		l = strings.TrimSpace(l)
		if l != "" && !strings.HasPrefix(l, "#") {
			out = append(out, l)
		}
	}
	return out
}

type knownFinding struct {
	prop, obligation, desc string
}

func loadKnown() []knownFinding {
	var out []knownFinding
	for _, l := range readLines(filepath.Join(verifRoot, "known_findings.txt")) {
		if !strings.HasPrefix(l, "known:") {
			continue
		}
		f := strings.Fields(l[len("known:"):])
		kf := knownFinding{}
		var rest []string
		for _, w := range f {
			switch {
			case strings.HasPrefix(w, "property="):
				kf.prop = w[len("property="):]
			case strings.HasPrefix(w, "obligation="):
				kf.obligation = w[len("obligation="):]
			default:
				rest = append(rest, w)
			}
		}
		kf.desc = strings.Join(rest, " ")
		out = append(out, kf)
	}
	return out
}

func cmdCheck(args []string) {
	fs := flag.NewFlagSet("check", flag.ExitOnError)
	prop := fs.String("prop", "", "property id")
	tier := fs.String("tier", "quick", "quick|thorough")
	writeBaseline := fs.Bool("write-baseline", false, "write baseline/<id>.obligations from this run")
	fs.Parse(args)
	start := time.Now()
	seed, _ := strconv.Atoi(os.Getenv("VERIF_SEED"))
	props := loadProps()
	pc := props[*prop]
	if pc == nil {
		fatal(2, "unknown property %s", *prop)
	}
	id := *prop
	timeoutS := 30
	allSolvers := false
	if *tier == "thorough" {
		timeoutS = 120
		allSolvers = true
	}
	P, err := LoadProgram(pc.Module, pc.Packages, specPaths(pc))
	if err != nil {
		fatal(2, "loading /repo: %v", err)
	}
	if !*writeBaseline {
		loadHints(filepath.Join(verifRoot, "baseline", id+".hints"))
	}
	tLoad := time.Since(start).Seconds()
	extraEngines = pc.Extra
	customReplays = pc.Replays
	curProp = pc
	units, problems := generateUnits(P, id, "")
	tGen := time.Since(start).Seconds() - tLoad
	extraRuns, extraNotes := runExtraEngines(P, id, pc)
	runs := solveAll(units, timeoutS, allSolvers, "")
	runs = append(runs, extraRuns...)
	tSolve := time.Since(start).Seconds() - tLoad - tGen
	fmt.Printf("%s timing: load %.1fs, generate %.1fs, solve %.1fs (%d obligations, %d cpus)\n", id, tLoad, tGen, tSolve, len(runs), runtime.NumCPU())

	baselinePath := filepath.Join(verifRoot, "baseline", id+".obligations")
	baseline := map[string]bool{}
	for _, l := range readLines(baselinePath) {
		baseline[l] = true
		// also under the canonical name (without the back-edge block number): a loop whose body gains or
		// loses a `continue` keeps its invariant-preservation obligations
		baseline[canonObl(l)] = true
	}
	haveBaseline := len(baseline) > 0

	known := loadKnown()
	isKnown := func(name string) *knownFinding {
		for i := range known {
			if known[i].prop == id && known[i].obligation == name {
				return &known[i]
			}
		}
		return nil
	}

	// retry undischarged obligations with a longer timeout
	var rwg sync.WaitGroup
	rsem := make(chan struct{}, max(1, runtime.NumCPU()/4))
	for _, r := range runs {
		if r.res.Status == "timeout" || r.res.Status == "unknown" {
			if r.u != nil && r.u.res != nil && r.u.res.Ctx != nil && (baseline[canonObl(r.o.Name)] || !haveBaseline) && !r.o.ExpectSat {
				rwg.Add(1)
				go func(r *oblRun) {
					defer rwg.Done()
					rsem <- struct{}{}
					defer func() { <-rsem }()
					r2 := Solve(r.u.res.Ctx, r.o, timeoutS*6, true, "")
					r2.Seconds += r.res.Seconds
					r.res = r2
				}(r)
			}
		}
	}
	rwg.Wait()

	var engineErrs []string
	var discharged, total, vacOK, vacInconclusive int
	bySolver := map[string]int{}
	var solverTime float64
	var slowest *oblRun
	var failures []*oblRun
	var undecided []string
	seen := map[string]bool{}
	var names []string
	for _, r := range runs {
		seen[r.o.Name] = true
		seen[canonObl(r.o.Name)] = true
		solverTime += r.res.Seconds
		if slowest == nil || r.res.Seconds > slowest.res.Seconds {
			slowest = r
		}
		if r.o.ExpectSat {
			switch r.res.Status {
			case "sat":
				vacOK++
				names = append(names, r.o.Name)
			case "unsat":
				failures = append(failures, r)
			default:
				vacInconclusive++
			}
			continue
		}
		if r.res.Status == "error" {
			// a malformed query or a solver disagreement is a defect of the machinery, never a verdict
			engineErrs = append(engineErrs, fmt.Sprintf("%s: %s", r.o.Name, firstLines(r.res.Raw, 3)))
			continue
		}
		total++
		switch r.res.Status {
		case "unsat":
			discharged++
			bySolver[r.res.Solver]++
			names = append(names, r.o.Name)
		default:
			if haveBaseline && !baseline[canonObl(r.o.Name)] {
				// new obligation that does not discharge: only a model (sat) is reported
				if r.res.Status == "sat" {
					failures = append(failures, r)
				} else {
					undecided = append(undecided, r.o.Name+" (new, "+r.res.Status+")")
					total--
				}
			} else {
				failures = append(failures, r)
			}
		}
	}
	for _, u := range units {
		if u.res.Err != nil {
			undecided = append(undecided, fmt.Sprintf("%s: %v", u.name, u.res.Err))
		}
	}
	for _, p := range problems {
		undecided = append(undecided, p)
	}
	var missing []string
	for n := range baseline {
		if !seen[n] && !seen[canonObl(n)] {
			missing = append(missing, n)
		}
	}
	sort.Strings(missing)
	for _, m := range missing {
		undecided = append(undecided, "baseline obligation not generated (function/loop/contract changed): "+m)
	}

	// anchors: source text behind every ordinal a contract uses (loop N, call F#N)
	anchorsPath := filepath.Join(verifRoot, "baseline", id+".anchors")
	var anchorLines []string
	curAnchors := map[string]string{}
	for _, u := range units {
		if u.res == nil || u.res.Gen == nil {
			continue
		}
		for k, v := range u.res.Gen.anchors {
			curAnchors[u.res.Gen.fnName+"\t"+k] = v
			anchorLines = append(anchorLines, u.res.Gen.fnName+"\t"+k+"\t"+v)
		}
	}
	staleFns := map[string]string{}
	if !*writeBaseline {
		// Ordinals have shifted when BOTH the number of loops / call sites of a name changed AND the source text
		// at a chosen ordinal is different.  (A changed count alone: something was added after the chosen ones.
		// Changed text alone: the chosen line itself was edited - the contract still speaks about it.)
		countChanged := map[string]bool{} // fn \t kind ("loops" | "calls <callee>")
		type textChange struct{ fn, key, was, now string }
		var texts []textChange
		for _, l := range readLines(anchorsPath) {
			f := strings.SplitN(l, "\t", 3)
			if len(f) != 3 {
				continue
			}
			cur, ok := curAnchors[f[0]+"\t"+f[1]]
			if !ok || cur == f[2] {
				continue
			}
			if f[1] == "loops" || strings.HasPrefix(f[1], "calls ") {
				countChanged[f[0]+"\t"+f[1]] = true
			} else {
				texts = append(texts, textChange{f[0], f[1], f[2], cur})
			}
		}
		for _, t := range texts {
			kind := "loops"
			if strings.HasPrefix(t.key, "call ") {
				callee := strings.TrimPrefix(t.key, "call ")
				if k := strings.LastIndex(callee, "#"); k >= 0 {
					callee = callee[:k]
				}
				kind = "calls " + callee
			}
			if countChanged[t.fn+"\t"+kind] {
				staleFns[t.fn] = fmt.Sprintf("%s now refers to `%s` (was `%s`) and the number of such sites changed", t.key, t.now, t.was)
			}
		}
	}
	if len(staleFns) > 0 {
		// a contract whose ordinals landed on different source text says nothing about the new code
		var keep []*oblRun
		for _, r := range failures {
			stale := ""
			for fn, why := range staleFns {
				if strings.HasPrefix(r.o.Name, fn+"/") {
					stale = why
				}
			}
			if stale != "" {
				undecided = append(undecided, r.o.Name+": contract anchor moved (stale-contract): "+stale)
				if !r.o.ExpectSat {
					total--
				}
				continue
			}
			keep = append(keep, r)
		}
		failures = keep
	}

	if *writeBaseline {
		sort.Strings(anchorLines)
		os.MkdirAll(filepath.Dir(anchorsPath), 0o755)
		os.WriteFile(anchorsPath, []byte(strings.Join(anchorLines, "\n")+"\n"), 0o644)
		sort.Strings(names)
		os.MkdirAll(filepath.Dir(baselinePath), 0o755)
		os.WriteFile(baselinePath, []byte(strings.Join(names, "\n")+"\n"), 0o644)
		fmt.Printf("wrote %s (%d obligations)\n", baselinePath, len(names))
		var hl []string
		for _, r := range runs {
			if r.res.Solver != "" && (r.res.Status == "unsat" || r.res.Status == "sat") {
				hl = append(hl, fmt.Sprintf("%s\t%s\t%.2f", r.o.Name, r.res.Solver, r.res.Seconds))
			}
		}
		sort.Strings(hl)
		os.WriteFile(filepath.Join(verifRoot, "baseline", id+".hints"), []byte(strings.Join(hl, "\n")+"\n"), 0o644)
	}

	// classify failures
	violations := 0
	var out []string
	replayDir := filepath.Join(verifRoot, "replays", id)
	var knownHit []string
	prio := func(r *oblRun) int {
		switch {
		case r.res.Status == "sat" && r.o.Kind == "postcondition":
			return 0
		case r.res.Status == "sat" && r.o.Kind == "safety":
			return 1
		case r.res.Status == "sat":
			return 2
		}
		return 3
	}
	sort.SliceStable(failures, func(i, j int) bool { return prio(failures[i]) < prio(failures[j]) })
	for _, r := range failures {
		if kf := isKnown(r.o.Name); kf != nil {
			knownHit = append(knownHit, fmt.Sprintf("KNOWN-FINDING: property=%s obligation=%s %s", id, r.o.Name, kf.desc))
			total--
			continue
		}
		violations++
		os.MkdirAll(replayDir, 0o755)
		path := filepath.Join(replayDir, sanitize(r.o.Name)+".txt")
		reproduced := writeReplay(P, path, id, r)
		line := fmt.Sprintf("VIOLATION property=%s replay=%s", id, path)
		if !reproduced {
			line += " no-failing-input-found"
		}
		out = append(out, line)
	}
	sort.Strings(knownHit)
	for _, k := range knownHit {
		fmt.Println(k)
	}
	// known findings that no longer fail are simply not printed.

	// evidence
	assumptions := []string{}
	aset := map[string]bool{}
	fnset := map[string]bool{}
	for _, u := range units {
		if u.res.Err == nil {
			fnset[u.name] = true
		}
		for _, n := range u.res.Notes {
			aset[n] = true
		}
	}
	for _, n := range extraNotes {
		aset[n] = true
	}
	for _, a := range pc.Assume {
		aset[a] = true
	}
	for k, ct := range P.Contracts {
		if ct.Trusted && aset["trusted contract (body not verified): "+k] {
			// already noted
		}
	}
	for _, l := range P.Lemmas {
		if l.Axiom && hasProp(l.Props, id) {
			aset["axiom (assumed, not proved): "+l.Name+": "+l.Body.String()] = true
		}
	}
	for a := range aset {
		assumptions = append(assumptions, a)
	}
	sort.Strings(assumptions)
	var fns []string
	for f := range fnset {
		fns = append(fns, f)
	}
	sort.Strings(fns)
	var samples []interface{}
	for i, r := range runs {
		if i%max(1, len(runs)/6) == 0 && len(samples) < 8 {
			samples = append(samples, map[string]interface{}{"obligation": r.o.Name, "kind": r.o.Kind, "clause": r.o.Text, "status": r.res.Status, "solver": r.res.Solver, "smt_bytes": r.res.SMTBytes, "seconds": round3(r.res.Seconds)})
		}
	}
	level := pc.Level
	if level == "" {
		level = "proof"
	}
	cov := map[string]interface{}{
		"obligations":              total,
		"discharged":               discharged,
		"checker_cmd":              fmt.Sprintf("/verif/bin/govc check -prop %s -tier %s  (VCs from go/ssa of /repo working tree, tags=verif; solvers raced: z3 4.8.12, z3 5.1.0, cvc5 1.0)", id, *tier),
		"trusted_base":             trustedBase(assumptions),
		"functions_under_contract": fns,
		"by_solver":                bySolver,
		"solver_time_s":            round3(solverTime),
		"vacuity_checks_sat":       vacOK,
		"vacuity_checks_inconclusive": vacInconclusive,
		"samples":                  samples,
		"undecided":                undecided,
		"known_findings_hit":       knownHit,
		"integer_semantics":        "Go integers are fixed-width bitvectors unless a function contract says 'option mathint' (then mathematical integers with overflow side-obligations)",
	}
	if slowest != nil {
		cov["slowest"] = map[string]interface{}{"obligation": slowest.o.Name, "seconds": round3(slowest.res.Seconds)}
	}
	if len(pc.Bounded) > 0 {
		cov["bounded"] = pc.Bounded
	}
	if level != "proof" || total == 0 {
		cov["explanation"] = fmt.Sprintf("%d obligations generated, %d discharged; undecided: %d", total, discharged, len(undecided))
	}
	if total == 0 || discharged == 0 {
		level = "other"
		cov["explanation"] = "no obligations were generated or discharged on this run (functions missing, contracts stale or unsupported code): " + strings.Join(undecided, "; ")
	}
	ev := Evidence{PropertyID: id, Tier: *tier, Seed: seed, Level: level, Coverage: cov, Assumptions: assumptions, WallS: round3(time.Since(start).Seconds()), Violations: violations}
	os.MkdirAll(filepath.Join(verifRoot, "evidence"), 0o755)
	data, _ := json.MarshalIndent(ev, "", " ")
	os.WriteFile(filepath.Join(verifRoot, "evidence", id+".json"), append(data, '\n'), 0o644)

	for _, u := range undecided {
		fmt.Println("UNDECIDED:", u)
	}
	fmt.Printf("%s %s: %d/%d obligations discharged, %d vacuity checks ok, %d functions, %.1fs\n", id, *tier, discharged, total, vacOK, len(fns), time.Since(start).Seconds())
	for _, l := range out {
		fmt.Println(l)
	}
	if violations > 0 {
		os.Exit(1)
	}
	if len(engineErrs) > 0 {
		for _, e := range engineErrs {
			fmt.Println("ENGINE-ERROR:", e)
		}
		os.Exit(2)
	}
	if !haveBaseline && !*writeBaseline {
		fmt.Println("note: no baseline file; every generated obligation was required to discharge")
	}
	os.Exit(0)
}

func round3(f float64) float64 { return float64(int(f*1000)) / 1000 }

func trustedBase(assumptions []string) []string {
	tb := []string{"go/packages+go/types+go/ssa (x/tools v0.50.0, go1.26.8)", "govc VC generator (/verif/govc)", "z3 4.8.12, z3 5.1.0, cvc5 1.0.x"}
	for _, a := range assumptions {
		if strings.HasPrefix(a, "trusted contract") || strings.HasPrefix(a, "axiom") || strings.HasPrefix(a, "assumed effect-free") {
			tb = append(tb, a)
		}
	}
	return tb
}

var replayBudget = 6
var replayDone = false

// writeReplay writes the replay file; returns true if the counterexample was reproduced on the real code.
func writeReplay(P *Program, path, id string, r *oblRun) bool {
	var b strings.Builder
	fmt.Fprintf(&b, "property: %s\nfailed obligation: %s\nkind: %s\nclause: %s\nfunction: %s\n", id, r.o.Name, r.o.Kind, r.o.Text, r.o.Func)
	if r.o.Pos.IsValid() {
		fmt.Fprintf(&b, "source position: %s\n", r.o.Pos)
	}
	fmt.Fprintf(&b, "solver verdict: %s (%s, %.2fs); per solver: %v\n", r.res.Status, r.res.Solver, r.res.Seconds, r.res.Per)
	reproduced := false
	if r.res.Status == "sat" && (len(r.res.Model) > 0 || r.o.Kind == "forkjoin") {
		fmt.Fprintf(&b, "counterexample (inputs):\n")
		var ks []string
		for k := range r.res.Model {
			ks = append(ks, k)
		}
		sort.Strings(ks)
		for _, k := range ks {
			fmt.Fprintf(&b, "  %s = %s\n", k, r.res.Model[k])
		}
		if replayBudget > 0 && !replayDone {
			replayBudget--
			ok, log := tryReplay(P, id, r)
			fmt.Fprintf(&b, "replay on real code: %s\n", log)
			reproduced = ok
			if ok {
				replayDone = true
			}
		} else if replayDone {
			fmt.Fprintf(&b, "replay on real code: not attempted (another failed obligation of this run was already reproduced on the real code)\n")
		} else {
			fmt.Fprintf(&b, "replay on real code: not attempted (replay budget of this run used up)\n")
		}
	} else if r.o.Kind == "layout" && r.res.Status == "sat" {
		fmt.Fprintf(&b, "both sides were evaluated on the real code bases (Go typed AST of /repo; clang -target bpf over /repo/felix/bpf-gpl headers) and differ:\n  %s\n", r.o.Text)
		fmt.Fprintf(&b, "replay: re-run `/verif/check %s quick` (the evaluation is deterministic)  => REPRODUCED on the real code\n", id)
		reproduced = true
	} else if r.o.ExpectSat {
		fmt.Fprintf(&b, "vacuity check failed: the query that must be satisfiable is unsat (contract or path became contradictory / unreachable)\n")
	} else {
		fmt.Fprintf(&b, "no model (solver answered %s); this obligation discharged on the unchanged tree and no longer does\n", r.res.Status)
	}
	fmt.Fprintf(&b, "solver output:\n%s\n", firstLines(r.res.Raw, 40))
	os.WriteFile(path, []byte(b.String()), 0o644)
	return reproduced
}
