package main

// Layout / constant obligations (C13, and constant facts other properties rest on).
//
//   //@ layout NAME: EXPR == EXPR          (also <, <=, &&; every clause is one named obligation)
//
// EXPR is evaluated, not solved: its leaves are compile-time facts of the two code bases -
//   Go side (from the typed AST of /repo's working tree): package-level constants by name (pkg.Name allowed),
//     gofield(Var, Field)      constant value of a field in a package-level var's composite literal,
//     gosizeof(Type), gooffsetof(Type, Field)  (gc/amd64 sizes), tag(Type, Field, key),
//     ascending(Var), descending(Var), allprime(Var), len(Var), last(Var) for package-level slices of constants;
//   C side (clang -target bpf over the repo's own headers with three libbpf stub headers):
//     csizeof("struct x"), coffsetof("struct x", "a.b"), and the ...6 variants compiled with -DIPVER6.
// A clause whose two sides differ is a violation; the replay file shows both numbers and the commands.

import (
	"fmt"
	"go/ast"
	"go/constant"
	"go/token"
	"go/types"
	"math/big"
	"os"
	"os/exec"
	"path/filepath"
	"reflect"
	"regexp"
	"sort"
	"strings"
	"sync"

	"golang.org/x/tools/go/packages"
)

type layoutVal struct {
	i *big.Int
	s *string
	b *bool
}

func (v layoutVal) String() string {
	switch {
	case v.i != nil:
		return v.i.String()
	case v.s != nil:
		return fmt.Sprintf("%q", *v.s)
	case v.b != nil:
		return fmt.Sprint(*v.b)
	}
	return "?"
}

type layoutEngine struct {
	P       *Program
	cQueries map[string]map[string]string // variant -> C expression -> symbol
	cValues  map[string]map[string]*big.Int
	cflags   []string
	includes []string
	cErr     error
	notes    map[string]bool
}

func newLayoutEngine(P *Program, pc *PropConfig) *layoutEngine {
	return &layoutEngine{P: P, cQueries: map[string]map[string]string{"": {}, "6": {}}, cValues: map[string]map[string]*big.Int{}, notes: map[string]bool{},
		includes: pc.CIncludes, cflags: pc.CFlags}
}

func (le *layoutEngine) pkgOf(path string) *packages.Package {
	for _, p := range le.P.Pkgs {
		if p.PkgPath == path {
			return p
		}
	}
	return nil
}

// ---- C side ----

func (le *layoutEngine) cExpr(variant, expr string) string {
	m := le.cQueries[variant]
	if s, ok := m[expr]; ok {
		return s
	}
	s := fmt.Sprintf("govc_q%d", len(m))
	m[expr] = s
	return s
}

func (le *layoutEngine) runClang() {
	for variant, qs := range le.cQueries {
		if len(qs) == 0 {
			continue
		}
		var b strings.Builder
		for _, inc := range le.includes {
			fmt.Fprintf(&b, "#include \"%s\"\n", inc)
		}
		var exprs []string
		for e := range qs {
			exprs = append(exprs, e)
		}
		sort.Strings(exprs)
		for _, e := range exprs {
			fmt.Fprintf(&b, "unsigned long %s = %s;\n", qs[e], e)
		}
		dir, err := os.MkdirTemp("", "govc-layout")
		if err != nil {
			le.cErr = err
			return
		}
		defer os.RemoveAll(dir)
		src := filepath.Join(dir, "layout.c")
		os.WriteFile(src, []byte(b.String()), 0o644)
		args := []string{"-target", "bpf", "-S", "-emit-llvm", "-O0", "-I" + filepath.Join(verifRoot, "cstubs"), "-I" + filepath.Join(repoRoot, "felix/bpf-gpl"),
			"-I/usr/include/x86_64-linux-gnu", "-D__x86_64__", "-DCALI_COMPILE_FLAGS=0", "-DCALI_LOG_LEVEL=0", "-Wno-everything"}
		args = append(args, le.cflags...)
		if variant == "6" {
			args = append(args, "-DIPVER6")
		}
		out := filepath.Join(dir, "layout.ll")
		args = append(args, "-o", out, src)
		cmd := exec.Command("clang", args...)
		if msg, err := cmd.CombinedOutput(); err != nil {
			le.cErr = fmt.Errorf("clang failed: %v\n%s", err, firstLines(string(msg), 15))
			return
		}
		data, _ := os.ReadFile(out)
		re := regexp.MustCompile(`(?m)^@(govc_q\d+) = .*global i64 (-?\d+)`)
		vals := map[string]*big.Int{}
		for _, m := range re.FindAllStringSubmatch(string(data), -1) {
			n, _ := new(big.Int).SetString(m[2], 10)
			vals[m[1]] = n
		}
		le.cValues[variant] = vals
		le.notes["C side: clang "+strings.Join(args[:len(args)-3], " ")+" (record layout of clang 14 for the bpf target is trusted to equal the compiler that builds the shipped programs; stub headers define no records)"] = true
	}
}

// ---- Go side ----

func (le *layoutEngine) lookupConst(pkg *packages.Package, name string) (constant.Value, bool) {
	try := func(tp *types.Package, n string) (constant.Value, bool) {
		if tp == nil {
			return nil, false
		}
		if c, ok := tp.Scope().Lookup(n).(*types.Const); ok {
			return c.Val(), true
		}
		return nil, false
	}
	if k := strings.LastIndex(name, "."); k >= 0 {
		pn, n := name[:k], name[k+1:]
		for _, imp := range pkg.Types.Imports() {
			if imp.Name() == pn || le.P.ImportAliases[pkg.PkgPath][pn] == imp.Path() {
				return try(imp, n)
			}
		}
		return nil, false
	}
	return try(pkg.Types, name)
}

// varLiteral finds the initialiser expression of a package-level variable.
func (le *layoutEngine) varLiteral(pkg *packages.Package, name string) ast.Expr {
	for _, f := range pkg.Syntax {
		for _, d := range f.Decls {
			gd, ok := d.(*ast.GenDecl)
			if !ok || gd.Tok != token.VAR {
				continue
			}
			for _, sp := range gd.Specs {
				vs := sp.(*ast.ValueSpec)
				for i, n := range vs.Names {
					if n.Name == name && i < len(vs.Values) {
						return vs.Values[i]
					}
				}
			}
		}
	}
	return nil
}

func (le *layoutEngine) constOf(pkg *packages.Package, e ast.Expr) (constant.Value, bool) {
	tv, ok := pkg.TypesInfo.Types[e]
	if !ok || tv.Value == nil {
		return nil, false
	}
	return tv.Value, true
}

func (le *layoutEngine) sliceConsts(pkg *packages.Package, name string) ([]*big.Int, error) {
	lit, ok := le.varLiteral(pkg, name).(*ast.CompositeLit)
	if !ok {
		return nil, fmt.Errorf("package-level variable %s with a composite literal not found", name)
	}
	var out []*big.Int
	for _, el := range lit.Elts {
		cv, ok := le.constOf(pkg, el)
		if !ok {
			return nil, fmt.Errorf("%s: element is not a constant", name)
		}
		n, ok := new(big.Int).SetString(constant.ToInt(cv).ExactString(), 10)
		if !ok {
			return nil, fmt.Errorf("%s: element is not an integer", name)
		}
		out = append(out, n)
	}
	return out, nil
}

func (le *layoutEngine) namedType(pkg *packages.Package, name string) (types.Type, error) {
	tp := pkg.Types
	n := name
	if k := strings.LastIndex(name, "."); k >= 0 {
		pn := name[:k]
		n = name[k+1:]
		tp = nil
		for _, imp := range pkg.Types.Imports() {
			if imp.Name() == pn || le.P.ImportAliases[pkg.PkgPath][pn] == imp.Path() {
				tp = imp
			}
		}
		if tp == nil {
			return nil, fmt.Errorf("package %s not imported by %s", pn, pkg.PkgPath)
		}
	}
	tn, ok := tp.Scope().Lookup(n).(*types.TypeName)
	if !ok {
		return nil, fmt.Errorf("type %s not found", name)
	}
	return tn.Type(), nil
}

var goSizes = types.SizesFor("gc", "amd64")

func fromConst(cv constant.Value) (layoutVal, error) {
	switch cv.Kind() {
	case constant.Int:
		n, _ := new(big.Int).SetString(cv.ExactString(), 10)
		return layoutVal{i: n}, nil
	case constant.String:
		s := constant.StringVal(cv)
		return layoutVal{s: &s}, nil
	case constant.Bool:
		b := constant.BoolVal(cv)
		return layoutVal{b: &b}, nil
	}
	return layoutVal{}, fmt.Errorf("unsupported constant kind %v", cv.Kind())
}

func isPrime(n *big.Int) bool {
	if n.Cmp(big.NewInt(2)) < 0 {
		return false
	}
	if !n.IsInt64() {
		return n.ProbablyPrime(32)
	}
	v := n.Int64()
	for d := int64(2); d*d <= v; d++ {
		if v%d == 0 {
			return false
		}
	}
	return true
}

func strArg(e Expr) (string, bool) {
	switch x := e.(type) {
	case *EStr:
		return x.Val, true
	case *EIdent:
		return x.Name, true
	case *EField:
		if s, ok := strArg(x.X); ok {
			return s + "." + x.Name, true
		}
	}
	return "", false
}

// eval: pass 1 (collect=true) only registers C queries; pass 2 computes.
func (le *layoutEngine) eval(pkg *packages.Package, e Expr, collect bool) (layoutVal, error) {
	bigOf := func(n int64) layoutVal { return layoutVal{i: big.NewInt(n)} }
	boolOf := func(b bool) layoutVal { return layoutVal{b: &b} }
	switch x := e.(type) {
	case *EInt:
		n, ok := new(big.Int).SetString(x.Text, 0)
		if !ok {
			return layoutVal{}, fmt.Errorf("bad literal %s", x.Text)
		}
		return layoutVal{i: n}, nil
	case *EStr:
		s := x.Val
		return layoutVal{s: &s}, nil
	case *EIdent, *EField:
		name, _ := strArg(e)
		cv, ok := le.lookupConst(pkg, name)
		if !ok {
			return layoutVal{}, fmt.Errorf("Go constant %s not found (stale-contract?)", name)
		}
		return fromConst(cv)
	case *EBinary:
		a, err := le.eval(pkg, x.X, collect)
		if err != nil {
			return a, err
		}
		b, err := le.eval(pkg, x.Y, collect)
		if err != nil {
			return b, err
		}
		if collect {
			return bigOf(0), nil
		}
		switch x.Op {
		case "&&":
			if a.b == nil || b.b == nil {
				return layoutVal{}, fmt.Errorf("&& on non-booleans")
			}
			return boolOf(*a.b && *b.b), nil
		case "==":
			return boolOf(a.String() == b.String()), nil
		case "!=":
			return boolOf(a.String() != b.String()), nil
		}
		if a.i == nil || b.i == nil {
			return layoutVal{}, fmt.Errorf("operator %s on non-integers in %s", x.Op, e)
		}
		switch x.Op {
		case "+":
			return layoutVal{i: new(big.Int).Add(a.i, b.i)}, nil
		case "-":
			return layoutVal{i: new(big.Int).Sub(a.i, b.i)}, nil
		case "*":
			return layoutVal{i: new(big.Int).Mul(a.i, b.i)}, nil
		case "<":
			return boolOf(a.i.Cmp(b.i) < 0), nil
		case "<=":
			return boolOf(a.i.Cmp(b.i) <= 0), nil
		case ">":
			return boolOf(a.i.Cmp(b.i) > 0), nil
		case ">=":
			return boolOf(a.i.Cmp(b.i) >= 0), nil
		}
		return layoutVal{}, fmt.Errorf("operator %s not supported in layout clauses", x.Op)
	case *ECall:
		arg := func(i int) string {
			if i < len(x.Args) {
				if s, ok := strArg(x.Args[i]); ok {
					return s
				}
			}
			return ""
		}
		switch x.Fun {
		case "csizeof", "csizeof6", "coffsetof", "coffsetof6":
			variant := ""
			if strings.HasSuffix(x.Fun, "6") {
				variant = "6"
			}
			cexpr := "sizeof(" + arg(0) + ")"
			if strings.HasPrefix(x.Fun, "coffsetof") {
				cexpr = "__builtin_offsetof(" + arg(0) + ", " + arg(1) + ")"
			}
			sym := le.cExpr(variant, cexpr)
			if collect {
				return bigOf(0), nil
			}
			if le.cErr != nil {
				return layoutVal{}, le.cErr
			}
			v, ok := le.cValues[variant][sym]
			if !ok {
				return layoutVal{}, fmt.Errorf("clang produced no value for %s", cexpr)
			}
			return layoutVal{i: v}, nil
		case "gofield":
			lit, ok := le.varLiteral(pkg, arg(0)).(*ast.CompositeLit)
			if !ok {
				return layoutVal{}, fmt.Errorf("package-level variable %s with a composite literal not found (stale-contract?)", arg(0))
			}
			for _, el := range lit.Elts {
				kv, ok := el.(*ast.KeyValueExpr)
				if !ok {
					continue
				}
				if id, ok := kv.Key.(*ast.Ident); ok && id.Name == arg(1) {
					cv, ok := le.constOf(pkg, kv.Value)
					if !ok {
						return layoutVal{}, fmt.Errorf("%s.%s is not a constant expression", arg(0), arg(1))
					}
					return fromConst(cv)
				}
			}
			return layoutVal{}, fmt.Errorf("%s has no field %s in its literal", arg(0), arg(1))
		case "strlen":
			v, err := le.eval(pkg, x.Args[0], collect)
			if err != nil {
				return v, err
			}
			if v.s == nil {
				if collect {
					return bigOf(0), nil
				}
				return layoutVal{}, fmt.Errorf("strlen of a non-string")
			}
			return bigOf(int64(len(*v.s))), nil
		case "govar":
			init := le.varLiteral(pkg, arg(0))
			if init == nil {
				return layoutVal{}, fmt.Errorf("package-level variable %s not found (stale-contract?)", arg(0))
			}
			cv, ok := le.constOf(pkg, init)
			if !ok {
				return layoutVal{}, fmt.Errorf("initialiser of %s is not a constant expression", arg(0))
			}
			return fromConst(cv)
		case "gosizeof":
			t, err := le.namedType(pkg, arg(0))
			if err != nil {
				return layoutVal{}, err
			}
			return bigOf(goSizes.Sizeof(t)), nil
		case "gooffsetof":
			t, err := le.namedType(pkg, arg(0))
			if err != nil {
				return layoutVal{}, err
			}
			st, ok := t.Underlying().(*types.Struct)
			if !ok {
				return layoutVal{}, fmt.Errorf("%s is not a struct", arg(0))
			}
			var fields []*types.Var
			for i := 0; i < st.NumFields(); i++ {
				fields = append(fields, st.Field(i))
			}
			offs := goSizes.Offsetsof(fields)
			for i, f := range fields {
				if f.Name() == arg(1) {
					return bigOf(offs[i]), nil
				}
			}
			return layoutVal{}, fmt.Errorf("%s has no field %s", arg(0), arg(1))
		case "tag":
			t, err := le.namedType(pkg, arg(0))
			if err != nil {
				return layoutVal{}, err
			}
			st, ok := t.Underlying().(*types.Struct)
			if !ok {
				return layoutVal{}, fmt.Errorf("%s is not a struct", arg(0))
			}
			for i := 0; i < st.NumFields(); i++ {
				if st.Field(i).Name() == arg(1) {
					s := reflect.StructTag(st.Tag(i)).Get(arg(2))
					return layoutVal{s: &s}, nil
				}
			}
			return layoutVal{}, fmt.Errorf("%s has no field %s", arg(0), arg(1))
		case "ascending", "descending", "allprime", "len", "last", "first":
			vals, err := le.sliceConsts(pkg, arg(0))
			if err != nil {
				return layoutVal{}, err
			}
			switch x.Fun {
			case "len":
				return bigOf(int64(len(vals))), nil
			case "last":
				if len(vals) == 0 {
					return layoutVal{}, fmt.Errorf("%s is empty", arg(0))
				}
				return layoutVal{i: vals[len(vals)-1]}, nil
			case "first":
				if len(vals) == 0 {
					return layoutVal{}, fmt.Errorf("%s is empty", arg(0))
				}
				return layoutVal{i: vals[0]}, nil
			case "allprime":
				for _, v := range vals {
					if !isPrime(v) {
						return boolOf(false), nil
					}
				}
				return boolOf(true), nil
			default:
				for i := 1; i < len(vals); i++ {
					c := vals[i-1].Cmp(vals[i])
					if (x.Fun == "ascending" && c >= 0) || (x.Fun == "descending" && c <= 0) {
						return boolOf(false), nil
					}
				}
				return boolOf(true), nil
			}
		}
		return layoutVal{}, fmt.Errorf("unknown layout function %s", x.Fun)
	}
	return layoutVal{}, fmt.Errorf("unsupported layout expression %s", e)
}

// cLayoutQuery answers one C-side query immediately (used by contracts that mention coffsetof/csizeof).
var cLayoutCache sync.Map

func cLayoutQuery(P *Program, fun string, args []string) (*big.Int, error) {
	key := fun + "|" + strings.Join(args, "|")
	if v, ok := cLayoutCache.Load(key); ok {
		return v.(*big.Int), nil
	}
	pc := curProp
	if pc == nil {
		pc = &PropConfig{}
	}
	le := newLayoutEngine(P, pc)
	if len(le.includes) == 0 {
		le.includes = []string{"linux/bpf.h", "types.h", "policy.h", "conntrack_types.h", "nat_types.h"}
	}
	variant := ""
	if strings.HasSuffix(fun, "6") {
		variant = "6"
	}
	cexpr := "sizeof(" + args[0] + ")"
	if strings.HasPrefix(fun, "coffsetof") {
		if len(args) < 2 {
			return nil, fmt.Errorf("coffsetof needs a struct and a field")
		}
		cexpr = "__builtin_offsetof(" + args[0] + ", " + args[1] + ")"
	}
	sym := le.cExpr(variant, cexpr)
	le.runClang()
	if le.cErr != nil {
		return nil, le.cErr
	}
	v, ok := le.cValues[variant][sym]
	if !ok {
		return nil, fmt.Errorf("clang produced no value for %s", cexpr)
	}
	cLayoutCache.Store(key, v)
	return v, nil
}

// describe renders the two sides of a comparison with their values.
func (le *layoutEngine) describe(pkg *packages.Package, e Expr) string {
	if b, ok := e.(*EBinary); ok && (b.Op == "==" || b.Op == "<" || b.Op == "<=" || b.Op == ">" || b.Op == ">=" || b.Op == "!=") {
		l, err1 := le.eval(pkg, b.X, false)
		r, err2 := le.eval(pkg, b.Y, false)
		if err1 == nil && err2 == nil {
			return fmt.Sprintf("%s = %s   %s   %s = %s", b.X, l, b.Op, b.Y, r)
		}
	}
	if b, ok := e.(*EBinary); ok && b.Op == "&&" {
		return le.describe(pkg, b.X) + "  &&  " + le.describe(pkg, b.Y)
	}
	return e.String()
}

// GenLayout evaluates every layout clause tagged with the property.
func GenLayout(P *Program, id string, pc *PropConfig) *FuncResult {
	res := &FuncResult{Fn: "layout"}
	le := newLayoutEngine(P, pc)
	type item struct {
		lc   LayoutClause
		name string
		e    Expr
		pkg  *packages.Package
		err  error
	}
	var items []*item
	for _, lc := range P.Layouts {
		if !hasProp(lc.Props, id) {
			continue
		}
		k := strings.Index(lc.Text, ":")
		it := &item{lc: lc}
		if k < 0 {
			it.err = fmt.Errorf("layout clause without a name: %s", lc.Text)
			items = append(items, it)
			continue
		}
		it.name = strings.TrimSpace(lc.Text[:k])
		it.pkg = le.pkgOf(lc.Pkg)
		e, err := ParseExpr(lc.Text[k+1:])
		it.e, it.err = e, err
		if it.pkg == nil && it.err == nil {
			it.err = fmt.Errorf("layout clause outside a loaded package")
		}
		items = append(items, it)
	}
	if len(items) == 0 {
		return nil
	}
	for _, it := range items {
		if it.err == nil {
			_, it.err = le.eval(it.pkg, it.e, true)
		}
	}
	le.runClang()
	c := newCtxOpts(P, false)
	for _, it := range items {
		name := "layout:" + it.name
		if it.err != nil {
			res.Err = fmt.Errorf("%s: %v", name, it.err)
			return res
		}
		v, err := le.eval(it.pkg, it.e, false)
		if err != nil {
			res.Err = fmt.Errorf("%s: %v", name, err)
			return res
		}
		goal := "false"
		if v.b != nil && *v.b {
			goal = "true"
		}
		res.Obligations = append(res.Obligations, &Obligation{Name: name, Guard: "true", Goal: goal, Kind: "layout", Text: le.describe(it.pkg, it.e), Func: "layout:" + it.name})
	}
	res.Ctx = c
	for n := range le.notes {
		res.Notes = append(res.Notes, n)
	}
	res.Notes = append(res.Notes, "Go side: constants and composite literals from the typed AST of /repo's working tree; sizes/offsets per go/types gc/amd64", "layout obligations are decided by evaluation of both sides (the solver only confirms the resulting constant)")
	sort.Strings(res.Notes)
	return res
}
