package main

// VC generation for one function: CFG traversal, loop cutting, states, obligations.

import (
	"fmt"
	"go/token"
	"go/types"
	"os"
	"sort"
	"strings"
	"sync"

	"golang.org/x/tools/go/ssa"
)

type Obligation struct {
	Name      string
	NAsserts  int
	Anc       map[int]bool // blocks whose assertions are relevant (ancestors of the obligation's block); nil: all
	Guard     string
	Goal      string
	Extra     []string
	ExpectSat bool // vacuity/cover checks: the query itself must be satisfiable
	Pos       token.Position
	ModelVars []ModelVar
	Func      string
	Kind      string
	Text      string // source text of the clause
	Clause    Expr   // the ensures clause (for replay)
}

type ModelVar struct {
	Name string // human name ("n", "mc.mask")
	Term string
}

type State struct {
	heap  map[string]string
	hwm   string
	ghost map[string]string
}

func (s *State) clone() *State {
	n := &State{heap: make(map[string]string, len(s.heap)), hwm: s.hwm, ghost: make(map[string]string, len(s.ghost))}
	for k, v := range s.heap {
		n.heap[k] = v
	}
	for k, v := range s.ghost {
		n.ghost[k] = v
	}
	return n
}

type loopInfo struct {
	header  *ssa.BasicBlock
	blocks  map[*ssa.BasicBlock]bool
	ordinal int
	spec    *LoopSpec
	minPos  token.Pos
	// per header: state snapshot at loop head (after havoc), used by decreases
	headState *State
	decVal    string
}

type nameBinding struct {
	val    ssa.Value
	block  *ssa.BasicBlock
	isAddr bool
	idx    int // instruction order
	obj    types.Object
}

type FuncGen struct {
	c        *Ctx
	prog     *Program
	fn       *ssa.Function
	contract *FuncContract
	pkg      *types.Package
	vals     map[ssa.Value]Val
	bcond    map[*ssa.BasicBlock]string
	exitSt   map[*ssa.BasicBlock]*State
	edgeC    map[[2]int]string
	loops    map[*ssa.BasicBlock]*loopInfo
	backEdge map[[2]int]bool
	entry    *State
	obls     []*Obligation
	names    map[string][]nameBinding
	params   map[string]Val
	defers   []*ssa.Defer
	cur      *State // state while executing a block
	curBlock *ssa.BasicBlock
	curInstr ssa.Instruction
	stableCache map[string]bool
	ignoreStable bool
	ancCache map[int]map[int]bool
	curGuard string
	seed     []string
	safety   bool
	assumeSafe bool
	anchors  map[string]string
	hookMatched map[int]bool
	nonEsc   map[ssa.Value]bool
	localRefs []string // refs of non-escaping local allocations made so far (terms)
	ownRefs   []string // ... those among them that are this function's own allocations (never seen by any callee): no call can return them
	// localRefClasses: for a local ref, the heap classes in which it can hold data (fields of its struct type,
	// its cell / element class); absent = any class.  Havoc preserves a local only in those classes.
	localRefClasses map[string]map[string]bool
	callOrd  map[string]int
	retCount int
	unsupported []string
	fnName   string
	modelVars []ModelVar
	safeSeen map[string]int
	instrIdx map[ssa.Instruction]int
	lockHeld map[string]bool
	splitExtra []string
	opaque     map[string]bool
	frameCache map[string][]frameLoc
	ghostState *State // state in which `ghost at call` statements of an uncontracted call are evaluated
	localGhostSorts map[string]Sort // per-function ghost state (e.g. visited sets of map ranges) -> sort
	postParts  map[int][]string
	assignParts []string
	retGuards  []string
}

type unsupportedErr struct{ msg string }

func (e unsupportedErr) Error() string { return e.msg }

func (g *FuncGen) unsup(format string, args ...interface{}) {
	panic(unsupportedErr{fmt.Sprintf(format, args...)})
}

// ---------- driver ----------

type FuncResult struct {
	Fn          string
	Obligations []*Obligation
	Ctx         *Ctx
	Err         error
	Notes       []string
	Gen         *FuncGen
}

// GenFunction generates obligations for fn against its contract.
func GenFunction(prog *Program, fn *ssa.Function, ct *FuncContract) *FuncResult {
	var seed []string
	seedSorts := map[string]Sort{}
	for iter := 0; iter < 6; iter++ {
		g, err := genOnce(prog, fn, ct, seed, seedSorts)
		if err != nil {
			return &FuncResult{Fn: fn.String(), Err: err}
		}
		if len(g.c.classList) == len(seed) {
			var notes []string
			for n := range g.c.notes {
				notes = append(notes, n)
			}
			sort.Strings(notes)
			return &FuncResult{Fn: fn.String(), Obligations: g.obls, Ctx: g.c, Notes: notes, Gen: g}
		}
		seed = append([]string(nil), g.c.classList...)
		seedSorts = map[string]Sort{}
		for k, v := range g.c.classes {
			seedSorts[k] = v
		}
	}
	return &FuncResult{Fn: fn.String(), Err: fmt.Errorf("heap class discovery did not converge")}
}

func genOnce(prog *Program, fn *ssa.Function, ct *FuncContract, seed []string, seedSorts map[string]Sort) (g *FuncGen, err error) {
	defer func() {
		if r := recover(); r != nil {
			if ue, ok := r.(unsupportedErr); ok {
				err = fmt.Errorf("%s: unsupported: %s", fn.String(), ue.msg)
				return
			}
			panic(r)
		}
	}()
	c := newCtxOpts(prog, ct != nil && ct.Options["mathint"] == "true")
	g = &FuncGen{c: c, prog: prog, fn: fn, contract: ct, vals: map[ssa.Value]Val{}, bcond: map[*ssa.BasicBlock]string{},
		exitSt: map[*ssa.BasicBlock]*State{}, edgeC: map[[2]int]string{}, loops: map[*ssa.BasicBlock]*loopInfo{},
		backEdge: map[[2]int]bool{}, names: map[string][]nameBinding{}, params: map[string]Val{}, seed: seed,
		safety: true, postParts: map[int][]string{}, callOrd: map[string]int{}, safeSeen: map[string]int{}, instrIdx: map[ssa.Instruction]int{}, lockHeld: map[string]bool{}}
	if fn.Pkg != nil {
		g.pkg = fn.Pkg.Pkg
	}
	if ct != nil && (ct.Options["safety"] == "off" || ct.Options["safety"] == "assume") {
		g.safety = false
		// option safety assume: no safety obligations, but execution past an index expression or a dereference
		// continues only if it did not panic (a panic is not a normal return, so postconditions do not cover it)
		g.assumeSafe = ct.Options["safety"] == "assume"
	}
	g.fnName = shortFuncName(fn)
	for _, cl := range seed {
		c.class(cl, seedSorts[cl])
	}
	g.run()
	return g, nil
}

func newCtxOpts(prog *Program, math bool) *Ctx {
	c := &Ctx{declared: map[string]bool{}, classes: map[string]Sort{}, dtDone: map[string]bool{}, tpSorts: map[string]bool{}, notes: map[string]bool{}, tagOf: map[string]int{}, structFull: map[string]string{}, prog: prog, mathInts: math}
	c.qual = func(p *types.Package) string {
		if p == nil {
			return ""
		}
		return p.Name()
	}
	c.decl("(declare-datatypes ((Slice 0)) (((mk_slice (s_arr Int) (s_off " + c.intSort(64) + ") (s_len " + c.intSort(64) + ") (s_cap " + c.intSort(64) + ")))))")
	c.decl("(declare-datatypes ((Iface 0)) (((mk_iface (i_typ Int) (i_val Int)))))")
	return c
}

func shortFuncName(fn *ssa.Function) string {
	s := fn.String()
	if fn.Pkg != nil {
		p := fn.Pkg.Pkg.Path()
		s = strings.ReplaceAll(s, p+".", fn.Pkg.Pkg.Name()+".")
	}
	return s
}

func (g *FuncGen) initialState() *State {
	st := &State{heap: map[string]string{}, ghost: map[string]string{}}
	for _, cl := range g.c.classList {
		st.heap[cl] = g.c.constant(cl+"@0", g.c.classes[cl])
	}
	st.hwm = g.c.constant("hwm@0", SInt)
	g.c.assert("(<= 0 hwm@0)")
	g.c.assert(eq(g.c.root("0"), "0"))
	for name, gv := range g.prog.Ghosts {
		s := g.specSort(gv.Type)
		st.ghost[name] = g.c.constant("ghost_"+name+"@0", s)
	}
	return st
}

// heapOf returns the current version of a class in a state (registering unseen classes).
func (g *FuncGen) heapOf(st *State, class string) string {
	if v, ok := st.heap[class]; ok {
		return v
	}
	// class discovered during this pass: use initial version (pass will be repeated with the class seeded)
	v := g.c.constant(class+"@0", g.c.classes[class])
	st.heap[class] = v
	return v
}

func (g *FuncGen) run() {
	fn := g.fn
	g.analyzeCFG()
	g.collectNames()
	g.computeNonEscaping()
	g.entry = g.initialState()
	// parameters
	for _, p := range fn.Params {
		v := g.declParam(p.Name(), p.Type())
		g.vals[p] = v
		g.params[p.Name()] = v
	}
	// option frozen p,q: the struct a pointer parameter points to (including nested struct-valued fields) is
	// not modified by calls whose effect is unknown - an assumption, listed in the evidence
	if g.contract != nil {
		for _, n := range strings.Fields(strings.ReplaceAll(g.contract.Options["frozen"], ",", " ")) {
			v, ok := g.params[n]
			if !ok {
				g.unsup("option frozen: no parameter %s (stale-contract?)", n)
			}
			g.c.note("assumed: the object parameter " + n + " points to is not modified by uncontracted callees (option frozen)")
			g.localRefs = append(g.localRefs, v.T)
			var nested func(ref string, t types.Type, depth int)
			nested = func(ref string, t types.Type, depth int) {
				st, name, ok := g.c.structOf(t)
				if !ok || depth > 3 {
					return
				}
				for i := 0; i < st.NumFields(); i++ {
					f := st.Field(i)
					if isStructType(f.Type()) {
						sub := g.c.subRef(name, f, ref)
						g.localRefs = append(g.localRefs, sub)
						nested(sub, f.Type(), depth+1)
					}
				}
			}
			nested(v.T, derefType(v.GT), 0)
		}
	}
	var fvTerms []string
	for _, fv := range fn.FreeVars {
		v := g.declParam("fv_"+fv.Name(), fv.Type())
		g.vals[fv] = v
		g.params[fv.Name()] = v
		// a free variable is the address of a variable of the enclosing function: non-nil, and distinct
		// variables have distinct addresses
		if _, isPtr := fv.Type().Underlying().(*types.Pointer); isPtr && v.T != "" {
			g.c.assert(not(eq(v.T, "0")))
			fvTerms = append(fvTerms, v.T)
		}
	}
	if len(fvTerms) > 1 {
		g.c.assert("(distinct " + strings.Join(fvTerms, " ") + ")")
	}
	// requires
	if g.contract != nil {
		env := g.envAt(g.entry, g.entry, nil)
		var pres []string
		for i, rq := range g.contract.Requires {
			t := g.trBool(env, rq.E, fmt.Sprintf("requires#%d", i+1))
			g.c.assert(t)
			pres = append(pres, t)
		}
		for _, u := range g.contract.Uses {
			g.assumeLemma(env, u)
		}
		g.addObl(&Obligation{Name: g.fnName + "/pre-sat", Guard: "true", Goal: "false", ExpectSat: true, Kind: "vacuity", Text: "requires clauses are jointly satisfiable"})
	}
	// blocks in topological order (ignoring back edges)
	order := g.topoOrder()
	for _, b := range order {
		g.c.curTag = b.Index
		g.processBlock(b)
	}
	g.c.curTag = -1
	g.curBlock = nil
	g.finishPosts()
	// a `ghost at call` clause that attached to no call site constrains nothing: the contract is stale (or the
	// callee name is misspelt) - say so instead of silently proving less than the contract says
	if g.contract != nil {
		for i := range g.contract.Ghosts {
			if !g.hookMatched[i] {
				ga := g.contract.Ghosts[i]
				n := ga.Callee
				if ga.Ordinal != 0 {
					n = fmt.Sprintf("%s#%d", n, ga.Ordinal)
				}
				hasCheck := false
				for _, st := range ga.Stmts {
					if st.Kind == "check" {
						hasCheck = true
					}
				}
				if !hasCheck {
					// an effect clause for an operation this function happens not to perform (protocol contracts
					// describe every operation of the protocol): harmless, but recorded
					g.c.note(fmt.Sprintf("ghost at call %s in the contract of %s matched no call site (effect clause only)", n, g.fnName))
					if os.Getenv("GOVC_LOOPS") != "" {
						fmt.Fprintf(os.Stderr, "DEADHOOK %s: %s\n", g.fnName, n)
					}
					continue
				}
				g.unsup("`ghost at call %s` (with a check) matches no call in %s (stale-contract?)", n, g.fnName)
			}
		}
	}
}

// assumeLemma asserts an instance of a (separately proved) lemma or a named axiom.
func (g *FuncGen) assumeLemma(env *Env, u Expr) { g.assumeLemmaGuarded(env, u, "true") }

func (g *FuncGen) assumeLemmaGuarded(env *Env, u Expr, guard string) {
	name := ""
	var args []Expr
	switch x := u.(type) {
	case *EIdent:
		name = x.Name
	case *ECall:
		name, args = x.Fun, x.Args
	default:
		g.unsup("uses %s", u)
	}
	for _, l := range g.prog.Lemmas {
		if l.Name != name {
			continue
		}
		if l.Axiom {
			g.c.note("axiom (assumed, not proved): " + l.Name + ": " + l.Body.String())
		} else {
			g.c.note("lemma instance assumed here, proved as its own obligation: lemma:" + l.Name)
		}
		body := l.Body
		e2 := &Env{g: g, vars: map[string]Val{}, cur: env.cur, old: env.old, pkg: env.pkg}
		if len(args) > 0 {
			q, ok := body.(*EQuant)
			if !ok || !q.Forall || len(q.Vars) < len(args) {
				g.unsup("uses %s: lemma has no matching top-level forall", u)
			}
			for i, a := range args {
				v := g.tr(env, a)
				t, s := g.specType(q.Vars[i].Type, env.pkg)
				if t != nil {
					s = g.c.sortOf(t)
				}
				v = g.coerceTo2(v, s, t)
				if t != nil {
					v.GT = t
				}
				e2.vars[q.Vars[i].Name] = v
			}
			if len(q.Vars) > len(args) {
				body = &EQuant{Forall: true, Vars: q.Vars[len(args):], Body: q.Body}
			} else {
				body = q.Body
			}
		}
		g.c.assert(implies(guard, g.trBool(e2, body, "")))
		return
	}
	g.unsup("uses %s: no such lemma", name)
}

func (g *FuncGen) declParam(name string, t types.Type) Val {
	s := g.c.sortOf(t)
	term := g.c.constant("p!"+sanitize(name), s)
	v := Val{T: term, S: s, GT: t}
	g.assumeWellTyped(v, t, g.entry)
	if _, ok := t.Underlying().(*types.Pointer); ok {
		if isScalarPointee(t) {
			pt := t.Underlying().(*types.Pointer).Elem()
			v.P = &PtrDesc{Kind: PCell, Base: term, Class: g.c.cellClass(pt), Elem: pt}
		}
	}
	g.modelVars = append(g.modelVars, ModelVar{name, term})
	return v
}

func isScalarPointee(t types.Type) bool {
	p, ok := t.Underlying().(*types.Pointer)
	if !ok {
		return false
	}
	return !isStructType(p.Elem()) && !isArrayType(p.Elem())
}

// assumeWellTyped adds range/shape facts for a value of type t that came from outside (param, load, call result).
func (g *FuncGen) assumeWellTyped(v Val, t types.Type, st *State) {
	guard := g.curGuardOrTrue()
	if _, isTP := types.Unalias(t).(*types.TypeParam); isTP {
		return // values of a type parameter are elements of an uninterpreted sort: nothing to assume
	}
	switch u := types.Unalias(t).Underlying().(type) {
	case *types.Basic:
		if ii, ok := basicIntInfo(u); ok && g.c.mathInts {
			lo, hi := intRange(ii)
			g.c.assert(implies(guard, fmt.Sprintf("(and (<= %s %s) (<= %s %s))", lo, v.T, v.T, hi)))
		}
		if u.Info()&types.IsString != 0 && g.c.mathInts {
			// strings are shorter than 2^40 bytes (assumption, listed): lengths then never overflow int arithmetic
			g.c.assert(implies(guard, fmt.Sprintf("(<= (str.len %s) 1099511627776)", v.T)))
			g.c.note("strings are assumed shorter than 2^40 bytes (mathint functions)")
		}
	case *types.Pointer, *types.Map, *types.Chan, *types.Signature:
		g.c.assert(implies(guard, fmt.Sprintf("(and (<= %s %s) (<= 0 (root %s)) (<= (root %s) %s) (=> (> %s 0) (= (root %s) %s)))", v.T, st.hwm, v.T, v.T, st.hwm, v.T, v.T, v.T)))
		g.c.root("0")
	case *types.Slice:
		g.c.assert(implies(guard, g.sliceWF(v.T, st)))
	case *types.Interface:
		g.c.assert(implies(guard, fmt.Sprintf("(and (<= 0 (i_typ %s)) (=> (= (i_typ %s) 0) (= (i_val %s) 0)))", v.T, v.T, v.T)))
	}
}

func intRange(ii intInfo) (string, string) {
	one := func(n uint) string {
		return fmt.Sprintf("%d", uint64(1)<<n)
	}
	if ii.signed {
		if ii.width == 64 {
			return "(- 9223372036854775808)", "9223372036854775807"
		}
		return "(- " + one(uint(ii.width-1)) + ")", fmt.Sprintf("%d", (uint64(1)<<uint(ii.width-1))-1)
	}
	if ii.width == 64 {
		return "0", "18446744073709551615"
	}
	return "0", fmt.Sprintf("%d", (uint64(1)<<uint(ii.width))-1)
}

func (g *FuncGen) sliceWF(s string, st *State) string {
	c := g.c
	z := c.intLit64(0, 64)
	le := func(a, b string) string {
		if c.mathInts {
			return fmt.Sprintf("(<= %s %s)", a, b)
		}
		return fmt.Sprintf("(bvsle %s %s)", a, b)
	}
	add := func(a, b string) string {
		if c.mathInts {
			return fmt.Sprintf("(+ %s %s)", a, b)
		}
		return fmt.Sprintf("(bvadd %s %s)", a, b)
	}
	maxoff := c.intLit64(1<<40, 64)
	return and(le(z, "(s_len "+s+")"), le("(s_len "+s+")", "(s_cap "+s+")"), le(z, "(s_off "+s+")"),
		le("(s_off "+s+")", maxoff), le("(s_cap "+s+")", maxoff),
		fmt.Sprintf("(<= (s_arr %s) %s)", s, st.hwm), fmt.Sprintf("(<= 0 %s)", c.root("(s_arr "+s+")")), fmt.Sprintf("(<= %s %s)", c.root("(s_arr "+s+")"), st.hwm),
		fmt.Sprintf("(=> (> (s_arr %s) 0) (= %s (s_arr %s)))", s, c.root("(s_arr "+s+")"), s),
		fmt.Sprintf("(=> (= (s_arr %s) 0) (= (s_cap %s) %s))", s, s, z),
		le(z, add("(s_off "+s+")", "(s_cap "+s+")")))
}

func (g *FuncGen) curGuardOrTrue() string {
	if g.curBlock == nil {
		return "true"
	}
	return g.bcond[g.curBlock]
}

// anchor records the source text at a position that a contract refers to by ORDINAL (loop N, call F#N).
// The baseline keeps these texts; when an ordinal later lands on different source text (a loop or a call was
// inserted before it), the contract is stale and its function is reported UNDECIDED, not as a violation.
func (g *FuncGen) anchor(key string, pos token.Pos) {
	if g.anchors == nil {
		g.anchors = map[string]string{}
	}
	g.anchors[key] = sourceLine(g.prog.Fset, pos)
}

var srcCache sync.Map

func sourceLine(fset *token.FileSet, pos token.Pos) string {
	if !pos.IsValid() {
		return "-"
	}
	p := fset.Position(pos)
	var lines []string
	if v, ok := srcCache.Load(p.Filename); ok {
		lines = v.([]string)
	} else {
		b, err := os.ReadFile(p.Filename)
		if err != nil {
			return "-"
		}
		lines = strings.Split(string(b), "\n")
		srcCache.Store(p.Filename, lines)
	}
	if p.Line < 1 || p.Line > len(lines) {
		return "-"
	}
	return strings.Join(strings.Fields(lines[p.Line-1]), " ")
}

func (g *FuncGen) addObl(o *Obligation) {
	o.NAsserts = len(g.c.asserts)
	if g.curBlock != nil && !o.ExpectSat && g.fn != nil {
		o.Anc = g.ancestorsOf(g.curBlock)
	}
	if g.fn != nil {
		o.Func = g.fn.String()
	}
	if o.ModelVars == nil {
		o.ModelVars = g.modelVars
	}
	o.Extra = append(o.Extra, g.splitExtra...)
	g.obls = append(g.obls, o)
}

// ancestorsOf: the blocks from which b is reachable along forward (non-back) edges, b included.  Assertions
// made while translating any other block define values and heap versions that b's obligations cannot mention.
func (g *FuncGen) ancestorsOf(b *ssa.BasicBlock) map[int]bool {
	if g.ancCache == nil {
		g.ancCache = map[int]map[int]bool{}
	}
	if a, ok := g.ancCache[b.Index]; ok {
		return a
	}
	anc := map[int]bool{b.Index: true}
	work := []*ssa.BasicBlock{b}
	for len(work) > 0 {
		x := work[len(work)-1]
		work = work[:len(work)-1]
		for _, p := range x.Preds {
			if g.backEdge[[2]int{p.Index, x.Index}] || anc[p.Index] {
				continue
			}
			anc[p.Index] = true
			work = append(work, p)
		}
	}
	g.ancCache[b.Index] = anc
	return anc
}

// ---------- CFG analysis ----------

func (g *FuncGen) analyzeCFG() {
	fn := g.fn
	// back edges
	for _, b := range fn.Blocks {
		if b == fn.Recover {
			continue
		}
		for _, s := range b.Succs {
			if s.Dominates(b) {
				g.backEdge[[2]int{b.Index, s.Index}] = true
				li := g.loops[s]
				if li == nil {
					li = &loopInfo{header: s, blocks: map[*ssa.BasicBlock]bool{s: true}}
					g.loops[s] = li
				}
				// natural loop: nodes reaching b without passing through s
				stack := []*ssa.BasicBlock{b}
				for len(stack) > 0 {
					x := stack[len(stack)-1]
					stack = stack[:len(stack)-1]
					if li.blocks[x] {
						continue
					}
					li.blocks[x] = true
					for _, p := range x.Preds {
						stack = append(stack, p)
					}
				}
			}
		}
	}
	// ordinals by minimal source position
	var ls []*loopInfo
	for _, li := range g.loops {
		li.minPos = token.NoPos
		for b := range li.blocks {
			for _, in := range b.Instrs {
				if _, ok := in.(*ssa.DebugRef); ok {
					continue
				}
				if p := in.Pos(); p.IsValid() && (li.minPos == token.NoPos || p < li.minPos) {
					li.minPos = p
				}
			}
		}
		ls = append(ls, li)
	}
	sort.Slice(ls, func(i, j int) bool {
		if ls[i].minPos != ls[j].minPos {
			return ls[i].minPos < ls[j].minPos
		}
		return ls[i].header.Index < ls[j].header.Index
	})
	for i, li := range ls {
		li.ordinal = i + 1
		if os.Getenv("GOVC_LOOPS") != "" {
			hp := token.NoPos
			for _, in := range li.header.Instrs {
				if in.Pos().IsValid() {
					hp = in.Pos()
					break
				}
			}
			fc := token.NoPos // first call inside the loop: usually the most telling position
			for b := range li.blocks {
				for _, in := range b.Instrs {
					if c, ok := in.(*ssa.Call); ok && c.Pos().IsValid() && (fc == token.NoPos || c.Pos() < fc) {
						fc = c.Pos()
					}
				}
			}
			fmt.Fprintf(os.Stderr, "LOOP %s: loop %d at %s (header block %d, first positioned instruction at %s, first call at %s)\n", g.fnName, li.ordinal, g.prog.Fset.Position(li.minPos), li.header.Index, g.prog.Fset.Position(hp), g.prog.Fset.Position(fc))
		}
		if g.contract != nil {
			li.spec = g.contract.Loops[li.ordinal]
			if li.spec != nil {
				// loop invariants are attached by ordinal: remember the number of loops
				if g.anchors == nil {
					g.anchors = map[string]string{}
				}
				g.anchors["loops"] = fmt.Sprint(len(ls))
				g.anchor(fmt.Sprintf("loop %d", li.ordinal), li.minPos) // ... and the text at the chosen loop
			}
		}
	}
	if g.contract != nil {
		for n := range g.contract.Loops {
			if n < 1 || n > len(ls) {
				g.unsup("contract names loop %d but function has %d loops (stale-contract)", n, len(ls))
			}
		}
	}
	idx := 0
	for _, b := range fn.Blocks {
		for _, in := range b.Instrs {
			g.instrIdx[in] = idx
			idx++
		}
	}
}

func (g *FuncGen) topoOrder() []*ssa.BasicBlock {
	fn := g.fn
	visited := map[*ssa.BasicBlock]bool{}
	var post []*ssa.BasicBlock
	var dfs func(b *ssa.BasicBlock)
	dfs = func(b *ssa.BasicBlock) {
		visited[b] = true
		for _, s := range b.Succs {
			if g.backEdge[[2]int{b.Index, s.Index}] || visited[s] {
				continue
			}
			dfs(s)
		}
		post = append(post, b)
	}
	dfs(fn.Blocks[0])
	for i, j := 0, len(post)-1; i < j; i, j = i+1, j-1 {
		post[i], post[j] = post[j], post[i]
	}
	return post
}

func (g *FuncGen) collectNames() {
	for _, b := range g.fn.Blocks {
		for _, in := range b.Instrs {
			if d, ok := in.(*ssa.DebugRef); ok {
				obj := d.Object()
				if obj == nil {
					continue
				}
				g.names[obj.Name()] = append(g.names[obj.Name()], nameBinding{val: d.X, block: b, isAddr: d.IsAddr, idx: g.instrIdx[in], obj: obj})
			}
		}
	}
}

// computeNonEscaping: local allocations whose address never leaves the function.
func (g *FuncGen) computeNonEscaping() {
	g.nonEsc = map[ssa.Value]bool{}
	var ok func(v ssa.Value, depth int) bool
	ok = func(v ssa.Value, depth int) bool {
		if depth > 6 {
			return false
		}
		refs := v.Referrers()
		if refs == nil {
			return false
		}
		for _, r := range *refs {
			switch x := r.(type) {
			case *ssa.Store:
				if x.Val == v {
					return false
				}
			case *ssa.UnOp:
				if x.Op != token.MUL {
					return false
				}
			case *ssa.FieldAddr:
				if !ok(x, depth+1) {
					return false
				}
			case *ssa.IndexAddr:
				if !ok(x, depth+1) {
					return false
				}
			case *ssa.MapUpdate:
				if x.Map != v {
					return false
				}
			case *ssa.Lookup:
				if x.X != v {
					return false
				}
			case *ssa.DebugRef:
			case *ssa.Range:
			case *ssa.Phi:
				// merged with other values of the same variable: it escapes only if the merged value does
				if !ok(x, depth+1) {
					return false
				}
			case *ssa.MakeClosure:
				// captured by a closure that only ever reads the variable: no call can change it
				cfn, isFn := x.Fn.(*ssa.Function)
				if !isFn || depth > 0 {
					return false
				}
				for i, bnd := range x.Bindings {
					if bnd == v && (i >= len(cfn.FreeVars) || !readOnlyFreeVar(cfn.FreeVars[i], 0)) {
						return false
					}
				}
			case *ssa.Slice:
				// a slice of a local array: local as long as the slice itself only goes to non-retaining uses
				if x.X != v || !ok(x, depth+1) {
					return false
				}
			case *ssa.Call:
				// builtins len/cap/delete are fine; copy and the encoding/binary byte-order helpers read or write
				// the bytes they are handed and keep no reference to them
				if b, isB := x.Call.Value.(*ssa.Builtin); isB {
					switch b.Name() {
					case "len", "cap", "delete", "copy":
						continue
					}
				}
				if fn, isFn := x.Call.Value.(*ssa.Function); isFn && !x.Call.IsInvoke() && strings.HasPrefix(fn.String(), "(encoding/binary.") {
					continue
				}
				return false
			default:
				return false
			}
		}
		return true
	}
	for _, b := range g.fn.Blocks {
		for _, in := range b.Instrs {
			switch x := in.(type) {
			case *ssa.Alloc:
				if ok(x, 0) {
					g.nonEsc[x] = true
				}
			case *ssa.MakeMap:
				if ok(x, 0) {
					g.nonEsc[x] = true
				}
			}
		}
	}
}

// readOnlyFreeVar: the closure (and the closures it creates) only loads from the captured variable.
func readOnlyFreeVar(fv *ssa.FreeVar, depth int) bool {
	if depth > 4 || fv.Referrers() == nil {
		return false
	}
	for _, r := range *fv.Referrers() {
		switch x := r.(type) {
		case *ssa.UnOp:
			if x.Op != token.MUL {
				return false
			}
		case *ssa.DebugRef:
		case *ssa.MakeClosure:
			cfn, ok := x.Fn.(*ssa.Function)
			if !ok {
				return false
			}
			for i, bnd := range x.Bindings {
				if bnd == ssa.Value(fv) && (i >= len(cfn.FreeVars) || !readOnlyFreeVar(cfn.FreeVars[i], depth+1)) {
					return false
				}
			}
		default:
			return false
		}
	}
	return true
}

// ---------- block processing ----------

func (g *FuncGen) edgeCond(p, b *ssa.BasicBlock) string {
	return g.edgeC[[2]int{p.Index, b.Index}]
}

func (g *FuncGen) mergeStates(preds []*ssa.BasicBlock, conds []string, label string) *State {
	if len(preds) == 1 {
		return g.exitSt[preds[0]].clone()
	}
	st := &State{heap: map[string]string{}, ghost: map[string]string{}}
	merge := func(get func(s *State) string, name string, srt Sort) string {
		first := get(g.exitSt[preds[0]])
		same := true
		for _, p := range preds[1:] {
			if get(g.exitSt[p]) != first {
				same = false
			}
		}
		if same {
			return first
		}
		t := get(g.exitSt[preds[len(preds)-1]])
		for i := len(preds) - 2; i >= 0; i-- {
			t = ite(conds[i], get(g.exitSt[preds[i]]), t)
		}
		n := g.c.fresh(name+"@"+label, srt)
		g.c.assert(eq(n, t))
		return n
	}
	for _, cl := range g.c.classList {
		cl := cl
		st.heap[cl] = merge(func(s *State) string { return g.heapOf(s, cl) }, cl, g.c.classes[cl])
	}
	st.hwm = merge(func(s *State) string { return s.hwm }, "hwm", SInt)
	for name, gv := range g.prog.Ghosts {
		name := name
		st.ghost[name] = merge(func(s *State) string { return s.ghost[name] }, "ghost_"+name, g.specSort(gv.Type))
	}
	// per-range "visited" sets (only where every predecessor has one)
	for name, srt := range g.localGhostSorts {
		name := name
		all := true
		for _, p := range preds {
			if _, ok := g.exitSt[p].ghost[name]; !ok {
				all = false
			}
		}
		if all {
			st.ghost[name] = merge(func(s *State) string { return s.ghost[name] }, "vis", srt)
		}
	}
	return st
}

func (g *FuncGen) processBlock(b *ssa.BasicBlock) {
	c := g.c
	label := fmt.Sprintf("b%d", b.Index)
	var preds []*ssa.BasicBlock
	var conds []string
	for _, p := range b.Preds {
		if g.backEdge[[2]int{p.Index, b.Index}] {
			continue
		}
		if _, done := g.exitSt[p]; !done {
			continue // unreachable predecessor (e.g. recover block)
		}
		preds = append(preds, p)
		conds = append(conds, g.edgeCond(p, b))
	}
	li := g.loops[b]
	if b.Index == 0 {
		g.bcond[b] = "true"
		g.cur = g.entry.clone()
	} else {
		if len(preds) == 0 {
			// unreachable in the DAG
			g.bcond[b] = "false"
			g.cur = g.entry.clone()
			g.exitSt[b] = g.cur
			return
		}
		bc := c.fresh("reach_"+label, SBool)
		c.assert(eq(bc, or(conds...)))
		g.bcond[b] = bc
		g.cur = g.mergeStates(preds, conds, label)
	}
	g.curBlock = b
	g.splitExtra = nil

	if li != nil {
		if li.spec == nil || len(li.spec.Invariants) == 0 {
			if li.spec == nil {
				li.spec = &LoopSpec{}
			}
		}
		// invariant on entry edges
		for i, p := range preds {
			g.checkInvariant(li, p, conds[i], "entry")
		}
		// havoc
		g.havocForLoop(li)
		// phis are fresh
		for _, in := range b.Instrs {
			phi, ok := in.(*ssa.Phi)
			if !ok {
				break
			}
			s := c.sortOf(phi.Type())
			t := c.fresh(g.valName(phi), s)
			v := Val{T: t, S: s, GT: phi.Type()}
			g.vals[phi] = v
			g.assumeWellTyped(v, phi.Type(), g.cur)
		}
		// assume invariants
		env := g.envAtLoopHead(li, nil, g.cur)
		for i, inv := range li.spec.Invariants {
			t := g.trBool(env, inv.E, fmt.Sprintf("loop%d/inv#%d", li.ordinal, i+1))
			c.assert(implies(g.bcond[b], t))
		}
		for _, u := range li.spec.Uses {
			g.assumeLemmaGuarded(env, u, g.bcond[b])
		}
		li.headState = g.cur.clone()
		if li.spec.Decreases != nil {
			dv := g.tr(env, li.spec.Decreases)
			n := c.fresh(fmt.Sprintf("dec_loop%d", li.ordinal), dv.S)
			c.assert(eq(n, dv.T))
			li.decVal = n
			g.addObl(&Obligation{Name: fmt.Sprintf("%s/loop%d/decreases-bounded", g.fnName, li.ordinal), Guard: g.bcond[b],
				Goal: g.cmpGE(dv, g.zeroOf(dv)), Kind: "termination", Text: "variant is non-negative at loop head"})
		}
		if li.spec.SplitVar != "" {
			// case split: handled by emitting per-case extra assumption on all obligations inside the loop body
			// (implemented as a disjunction obligation + per-case copies in checkInvariant for preserve)
		}
	} else {
		// ordinary phis
		for _, in := range b.Instrs {
			phi, ok := in.(*ssa.Phi)
			if !ok {
				break
			}
			g.vals[phi] = g.phiValue(phi, preds, conds)
		}
	}

	for _, in := range b.Instrs {
		if _, ok := in.(*ssa.Phi); ok {
			continue
		}
		g.instr(in)
	}
	g.exitSt[b] = g.cur

	// back edges out of this block: check invariant preservation
	for _, s := range b.Succs {
		if g.backEdge[[2]int{b.Index, s.Index}] {
			g.checkInvariant(g.loops[s], b, g.edgeCond(b, s), "preserve")
		}
	}
}

func (g *FuncGen) valName(v ssa.Value) string {
	return v.Name()
}

func (g *FuncGen) phiValue(phi *ssa.Phi, preds []*ssa.BasicBlock, conds []string) Val {
	c := g.c
	// map preds -> edge index in phi.Edges (phi.Edges aligned with block.Preds)
	b := phi.Block()
	type inc struct {
		v    Val
		cond string
	}
	var incs []inc
	for i, p := range b.Preds {
		for j, q := range preds {
			if p == q {
				incs = append(incs, inc{g.value(phi.Edges[i]), conds[j]})
			}
		}
	}
	if len(incs) == 0 {
		g.unsup("phi with no incoming edges")
	}
	first := incs[0].v
	if first.Tup != nil || (first.P != nil && first.T == "") {
		g.unsup("phi of tuple/static pointer %s", phi.Name())
	}
	s := c.sortOf(phi.Type())
	t := incs[len(incs)-1].v.T
	for i := len(incs) - 2; i >= 0; i-- {
		t = ite(incs[i].cond, incs[i].v.T, t)
	}
	n := c.constant(g.uniq(phi.Name()), s)
	c.assert(eq(n, t))
	v := Val{T: n, S: s, GT: phi.Type()}
	if isScalarPointee(phi.Type()) {
		pt := phi.Type().Underlying().(*types.Pointer).Elem()
		v.P = &PtrDesc{Kind: PCell, Base: n, Class: c.cellClass(pt), Elem: pt}
		for _, ic := range incs {
			if ic.v.P != nil && ic.v.P.Kind != PCell {
				g.unsup("phi merges interior pointers (%s)", phi.Name())
			}
		}
	}
	return v
}

func (g *FuncGen) uniq(name string) string { return "v!" + sanitize(name) }

// havocForLoop replaces everything the loop may modify by fresh values.
func (g *FuncGen) havocForLoop(li *loopInfo) {
	c := g.c
	classes, all := g.loopWrites(li)
	label := fmt.Sprintf("loop%d", li.ordinal)
	stable := g.stableClasses()
	for _, cl := range c.classList {
		if stable[cl] && !classes[cl] {
			continue // only unknown callees could write it, and they are assumed not to (option stable)
		}
		if all || classes[cl] {
			old := g.heapOf(g.cur, cl)
			n := c.fresh(cl+"@"+label, c.classes[cl])
			g.cur.heap[cl] = n
			// non-escaping local allocations not written in the loop keep their contents only if
			// the class was not explicitly written; for havoc-all we keep locals that are non-escaping
			if all && !classes[cl] {
				for _, r := range g.localRefs {
					if lc, ok := g.localRefClasses[r]; ok && !lc[cl] {
						continue
					}
					c.assert(fmt.Sprintf("(= (select %s %s) (select %s %s))", n, r, old, r))
				}
			}
		}
	}
	if g.contract != nil && g.contract.AssignsSet {
		// implicit loop invariant (checked on entry and on every back edge): the function's frame holds at the loop head
		if f := g.frameFormulaFor(g.cur, "qr", "qi"); f != "true" {
			c.useQuant = true
			c.assert(implies(g.bcond[li.header], fmt.Sprintf("(forall ((qr Int) (qi %s)) %s)", c.intSort(64), f)))
		}
	}
	oldH := g.cur.hwm
	nh := c.fresh("hwm@"+label, SInt)
	c.assert(fmt.Sprintf("(<= %s %s)", oldH, nh))
	g.cur.hwm = nh
	for name, gv := range g.prog.Ghosts {
		if g.loopWritesGhost(li, name) {
			g.cur.ghost[name] = c.fresh("ghost_"+name+"@"+label, g.specSort(gv.Type))
		}
	}
	// the "visited" set of every map range that advances inside this loop changes with each iteration
	for b := range li.blocks {
		for _, in := range b.Instrs {
			if nx, ok := in.(*ssa.Next); ok {
				if rng, ok := nx.Iter.(*ssa.Range); ok {
					if srt, ok := g.localGhostSorts[visitedKey(rng)]; ok {
						g.cur.ghost[visitedKey(rng)] = c.fresh("visited@"+label, srt)
					}
				}
			}
		}
	}
}

// rangeOfLoop: the map range a loop iterates (its header holds the Next), if any.
func (g *FuncGen) rangeOfLoop(li *loopInfo) *ssa.Range {
	for _, in := range li.header.Instrs {
		if nx, ok := in.(*ssa.Next); ok {
			if rng, ok := nx.Iter.(*ssa.Range); ok {
				return rng
			}
		}
	}
	return nil
}

func (g *FuncGen) loopWritesGhost(li *loopInfo, name string) bool {
	if g.contract == nil {
		return false
	}
	for _, ga := range g.contract.Ghosts {
		for _, st := range ga.Stmts {
			if st.Kind == "set" && st.Var == name && g.loopCalls(li, ga.Callee) {
				return true // a call that triggers this ghost update occurs inside the loop
			}
		}
	}
	return false
}

// loopCalls: some call inside the loop may match the callee suffix of a `ghost at call` clause (conservative: a
// call whose target cannot be named counts as a match unless it is a plain callback parameter).
func (g *FuncGen) loopCalls(li *loopInfo, calleeSuffix string) bool {
	for b := range li.blocks {
		for _, in := range b.Instrs {
			var cc *ssa.CallCommon
			switch x := in.(type) {
			case *ssa.Call:
				cc = &x.Call
			case *ssa.Defer:
				cc = &x.Call
			case *ssa.Go:
				cc = &x.Call
			default:
				continue
			}
			if _, isB := cc.Value.(*ssa.Builtin); isB {
				continue
			}
			name := ""
			if cc.IsInvoke() {
				name = fmt.Sprintf("(%s).%s", types.TypeString(types.Unalias(cc.Value.Type()), nil), cc.Method.Name())
			} else if callee := cc.StaticCallee(); callee != nil {
				name = callee.String()
				if o := callee.Origin(); o != nil {
					name = o.String()
				}
			} else if p, ok := cc.Value.(*ssa.Parameter); ok {
				name = "callback " + p.Name()
			} else if n := g.debugNameOf(cc.Value); n != "" {
				name = "dynamic call " + n
			} else if ld, ok := cc.Value.(*ssa.UnOp); ok && ld.Op == token.MUL {
				// a function-valued struct field: hooks name such calls by the field
				fa, ok := ld.X.(*ssa.FieldAddr)
				if !ok {
					return true
				}
				st, ok := derefType(fa.X.Type()).Underlying().(*types.Struct)
				if !ok {
					return true
				}
				name = "dynamic call " + st.Field(fa.Field).Name()
			} else {
				return true
			}
			if strings.HasSuffix(name, calleeSuffix) || strings.HasSuffix(stripTypeParams(name), calleeSuffix) {
				return true
			}
		}
	}
	return false
}

// checkInvariant emits obligations that the loop invariants hold when arriving at the header from block p.
func (g *FuncGen) checkInvariant(li *loopInfo, p *ssa.BasicBlock, cond string, kind string) {
	if li.spec == nil {
		return
	}
	st := g.exitSt[p]
	if st == nil {
		st = g.cur
	}
	// bind header phis to the incoming values
	bind := map[ssa.Value]Val{}
	for _, in := range li.header.Instrs {
		phi, ok := in.(*ssa.Phi)
		if !ok {
			break
		}
		for i, q := range li.header.Preds {
			if q == p {
				bind[phi] = g.value(phi.Edges[i])
			}
		}
	}
	env := g.envAtLoopHead(li, bind, st)
	emit := func(name string, goal string, text string, extra []string) {
		o := &Obligation{Name: name, Guard: cond, Goal: goal, Kind: "invariant-" + kind, Text: text, Extra: extra}
		g.addObl(o)
	}
	split := kind == "preserve" && li.spec.SplitVar != ""
	var splitTerm Val
	if split {
		henv := g.envAtLoopHead(li, nil, li.headState)
		splitTerm = g.tr(henv, &EIdent{li.spec.SplitVar})
	}
	if split {
		// one obligation per counter value, all invariants conjoined (keeps the obligation count down)
		var all []string
		var texts []string
		for _, inv := range li.spec.Invariants {
			all = append(all, g.trBool(env, inv.E, ""))
			texts = append(texts, inv.Text)
		}
		name := fmt.Sprintf("%s/loop%d/inv/%s", g.fnName, li.ordinal, kind)
		if g.numBackEdges(li) > 1 {
			name += fmt.Sprintf("@b%d", p.Index)
		}
		var cases []string
		for k := li.spec.SplitLo; k <= li.spec.SplitHi; k++ {
			cs := eq(splitTerm.T, g.litFor(splitTerm, int64(k)))
			cases = append(cases, cs)
			emit(fmt.Sprintf("%s[%s=%d]", name, li.spec.SplitVar, k), and(all...), strings.Join(texts, " && "), []string{cs})
		}
		emit(fmt.Sprintf("%s/loop%d/split-exhaustive", g.fnName, li.ordinal), or(cases...), "split cases cover all values", nil)
	} else {
		for i, inv := range li.spec.Invariants {
			t := g.trBool(env, inv.E, "")
			name := fmt.Sprintf("%s/loop%d/inv#%d/%s", g.fnName, li.ordinal, i+1, kind)
			if kind == "entry" && len(g.entryPreds(li)) > 1 {
				name += fmt.Sprintf("@b%d", p.Index)
			}
			if kind == "preserve" && g.numBackEdges(li) > 1 {
				name += fmt.Sprintf("@b%d", p.Index)
			}
			emit(name, t, inv.Text, nil)
		}
	}
	if g.contract != nil && g.contract.AssignsSet {
		if f := g.frameFormula(st); f != "true" {
			name := fmt.Sprintf("%s/loop%d/frame/%s", g.fnName, li.ordinal, kind)
			if (kind == "entry" && len(g.entryPreds(li)) > 1) || (kind == "preserve" && g.numBackEdges(li) > 1) {
				name += fmt.Sprintf("@b%d", p.Index)
			}
			emit(name, f, "the function's assigns clause holds at the loop head", nil)
		}
	}
	if kind == "preserve" && li.spec.Decreases != nil {
		dv := g.tr(env, li.spec.Decreases)
		emit(fmt.Sprintf("%s/loop%d/decreases", g.fnName, li.ordinal), g.cmpLT(dv, Val{T: li.decVal, S: dv.S, GT: dv.GT}), "variant strictly decreases", nil)
	}
}

func (g *FuncGen) entryPreds(li *loopInfo) []*ssa.BasicBlock {
	var out []*ssa.BasicBlock
	for _, p := range li.header.Preds {
		if !g.backEdge[[2]int{p.Index, li.header.Index}] {
			out = append(out, p)
		}
	}
	return out
}
func (g *FuncGen) numBackEdges(li *loopInfo) int {
	n := 0
	for _, p := range li.header.Preds {
		if g.backEdge[[2]int{p.Index, li.header.Index}] {
			n++
		}
	}
	return n
}

func (g *FuncGen) litFor(v Val, k int64) string {
	if ii, ok := basicIntInfo(v.GT); ok {
		return g.c.intLit64(k, ii.width)
	}
	return g.c.intLit64(k, 64)
}

func (g *FuncGen) zeroOf(v Val) Val {
	return Val{T: g.litFor(v, 0), S: v.S, GT: v.GT}
}

func (g *FuncGen) isSigned(t types.Type) bool {
	if t == nil {
		return true
	}
	ii, ok := basicIntInfo(t)
	return !ok || ii.signed
}

func (g *FuncGen) cmpGE(a, b Val) string {
	if g.c.mathInts || a.S == SInt {
		return fmt.Sprintf("(>= %s %s)", a.T, b.T)
	}
	if g.isSigned(a.GT) {
		return fmt.Sprintf("(bvsge %s %s)", a.T, b.T)
	}
	return fmt.Sprintf("(bvuge %s %s)", a.T, b.T)
}
func (g *FuncGen) cmpLT(a, b Val) string {
	if g.c.mathInts || a.S == SInt {
		return fmt.Sprintf("(< %s %s)", a.T, b.T)
	}
	if g.isSigned(a.GT) {
		return fmt.Sprintf("(bvslt %s %s)", a.T, b.T)
	}
	return fmt.Sprintf("(bvult %s %s)", a.T, b.T)
}

// loopWrites computes the heap classes possibly written inside a loop.
func (g *FuncGen) loopWrites(li *loopInfo) (map[string]bool, bool) {
	classes := map[string]bool{}
	all := false
	// ghost statements of this function that assign ghost fields may run inside the loop: havoc all model state
	if g.contract != nil {
		for _, ga := range g.contract.Ghosts {
			for _, st := range ga.Stmts {
				if st.Kind == "set" && strings.Contains(st.Var, ".") {
					for _, cl := range g.c.classList {
						if strings.HasPrefix(cl, "G_") {
							classes[cl] = true
						}
					}
				}
			}
		}
	}
	for b := range li.blocks {
		for _, in := range b.Instrs {
			cl, a := g.instrWrites(in)
			if a {
				all = true
			}
			for _, x := range cl {
				classes[x] = true
			}
		}
	}
	return classes, all
}

// ---------- environment for spec translation ----------

type Env struct {
	g     *FuncGen
	vars  map[string]Val
	cur   *State
	old   *State
	look  func(name string) (Val, bool)
	ambig map[string]bool // names a ghost statement must not use: they mean different things in caller and callee
	freshBase *State      // if set, fresh(x) means "allocated after this state" instead of after `old`
	pkg   *types.Package
	label string
	inOld bool
}

func (e *Env) with(name string, v Val) *Env {
	n := *e
	n.vars = make(map[string]Val, len(e.vars)+1)
	for k, x := range e.vars {
		n.vars[k] = x
	}
	n.vars[name] = v
	return &n
}

// envAt: environment with parameters (and results, if given).
func (g *FuncGen) envAt(cur, old *State, results []Val) *Env {
	env := &Env{g: g, vars: map[string]Val{}, cur: cur, old: old, pkg: g.pkg}
	for k, v := range g.params {
		env.vars[k] = v
	}
	if results != nil {
		sig := g.fn.Signature
		bindResults(env.vars, sig, results, nil)
	}
	return env
}

func bindResults(vars map[string]Val, sig *types.Signature, results []Val, names []string) {
	rs := sig.Results()
	for i := 0; i < rs.Len() && i < len(results); i++ {
		v := results[i]
		if v.GT == nil {
			v.GT = rs.At(i).Type()
		}
		if n := rs.At(i).Name(); n != "" && n != "_" {
			vars[n] = v
		}
		if i < len(names) {
			vars[names[i]] = v
		}
		vars[fmt.Sprintf("res%d", i)] = v
		if rs.Len() == 1 {
			vars["res"] = v
		}
		if isErrorType(rs.At(i).Type()) && i == rs.Len()-1 {
			if _, ok := vars["err"]; !ok || rs.At(i).Name() == "" {
				vars["err"] = v
			}
		} else if i == 0 {
			vars["res"] = v
		}
	}
}

func isErrorType(t types.Type) bool {
	n, ok := types.Unalias(t).(*types.Named)
	return ok && n.Obj().Pkg() == nil && n.Obj().Name() == "error"
}

// envAtLoopHead resolves source-level names at a loop header. bind optionally overrides header phis.
func (g *FuncGen) envAtLoopHead(li *loopInfo, bind map[ssa.Value]Val, st *State) *Env {
	env := g.envAt(st, g.entry, nil)
	h := li.header
	if rng := g.rangeOfLoop(li); rng != nil {
		if t, ok := st.ghost[visitedKey(rng)]; ok {
			// `visited`: the set of keys this range has already yielded
			env.vars["visited"] = Val{T: t, S: g.localGhostSorts[visitedKey(rng)]}
		}
	}
	env.look = func(name string) (Val, bool) {
		getv := func(v ssa.Value) Val {
			if bind != nil {
				if x, ok := bind[v]; ok {
					return x
				}
			}
			return g.value(v)
		}
		// 1. header phi with that comment
		for _, in := range h.Instrs {
			phi, ok := in.(*ssa.Phi)
			if !ok {
				break
			}
			if phi.Comment == name {
				return getv(phi), true
			}
		}
		// 2. debug refs whose value is a phi of this header
		for _, nb := range g.names[name] {
			if phi, ok := nb.val.(*ssa.Phi); ok && phi.Block() == h && !nb.isAddr {
				return getv(phi), true
			}
		}
		// 3. debug refs dominating the header (closest)
		var best *nameBinding
		for i := range g.names[name] {
			nb := &g.names[name][i]
			vb := valueBlock(nb.val)
			if vb == nil {
				// parameter / constant / global
				if best == nil {
					best = nb
				}
				continue
			}
			if vb != h && vb.Dominates(h) && !li.blocks[vb] {
				if best == nil || valueBlock(best.val) == nil || valueBlock(best.val).Dominates(vb) {
					best = nb
				}
			}
		}
		if best != nil {
			v := getv(best.val)
			if best.isAddr {
				return g.loadFrom(v, best.val.Type().Underlying().(*types.Pointer).Elem(), st), true
			}
			return v, true
		}
		return Val{}, false
	}
	return env
}

func valueBlock(v ssa.Value) *ssa.BasicBlock {
	if in, ok := v.(ssa.Instruction); ok {
		return in.Block()
	}
	return nil
}

// ---------- safety obligations ----------

func (g *FuncGen) safe(kind string, in ssa.Instruction, cond string, text string) {
	if !g.safety || cond == "true" {
		if g.assumeSafe && cond != "true" && (kind == "bounds" || kind == "nil" || kind == "slice-bounds" || kind == "makeslice" || kind == "div" || kind == "type-assert") {
			g.c.note("option safety assume: execution continues past index/dereference only if it did not panic")
			g.c.assert(implies(g.bcond[g.curBlock], cond))
		}
		return
	}
	key := kind + "@" + text
	g.safeSeen[key]++
	name := fmt.Sprintf("%s/safe:%s@%s", g.fnName, kind, text)
	if n := g.safeSeen[key]; n > 1 {
		name += fmt.Sprintf("#%d", n)
	}
	o := &Obligation{Name: name, Guard: g.bcond[g.curBlock], Goal: cond, Kind: "safety", Text: kind + " " + text}
	if in != nil {
		o.Pos = g.prog.Fset.Position(in.Pos())
	}
	g.addObl(o)
	// after the check, execution continues only if it held
	g.c.assert(implies(g.bcond[g.curBlock], cond))
}
