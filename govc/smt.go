package main

// SMT-side helpers: sorts for Go types, declarations, heap classes.

import (
	"fmt"
	"go/types"
	"math/big"
	"sort"
	"strings"
)

type Sort = string

const (
	SBool   = "Bool"
	SInt    = "Int"
	SString = "String"
	SSlice  = "Slice"
	SIface  = "Iface"
	SRef    = "Int"
)

// Val is the generation-time value of an SSA value or spec expression.
type Val struct {
	T   string // SMT term
	S   Sort
	P   *PtrDesc // static pointer description (pointers to non-struct memory)
	Tup []Val    // tuples (multi-value results)
	Clo *Closure
	GT  types.Type // Go type if known
}

const (
	PField = iota
	PElem
	PCell
)

type PtrDesc struct {
	Kind  int
	Base  string // Int term (struct ref / array ref / cell ref)
	Class string
	Idx   string // PElem index term (absolute index into backing array)
	Elem  types.Type
}

type Closure struct {
	Fn       interface{} // *ssa.Function
	Bindings []Val
}

// Ctx collects declarations/assertions for one verification unit.
type Ctx struct {
	decls     []string
	declared  map[string]bool
	asserts   []string
	assertTag []int // per assertion: index of the basic block being translated when it was made (-1: global)
	curTag    int
	nfresh    int
	mathInts  bool
	classes   map[string]Sort // heap class -> array sort
	classList []string
	dtDone    map[string]bool
	qual      types.Qualifier
	tpSorts   map[string]bool
	notes     map[string]bool // assumptions / trusted items used
	useStrings bool
	useFP      bool
	useQuant   bool
	tagOf      map[string]int
	structFull map[string]string // struct sort name -> fully qualified Go type (collision detection)
	prog       *Program
}

func newCtx(prog *Program) *Ctx {
	c := &Ctx{declared: map[string]bool{}, classes: map[string]Sort{}, dtDone: map[string]bool{}, tpSorts: map[string]bool{}, notes: map[string]bool{}, tagOf: map[string]int{}, prog: prog, curTag: -1}
	c.qual = func(p *types.Package) string {
		if p == nil {
			return ""
		}
		return p.Name()
	}
	c.decl("(declare-datatypes ((Slice 0)) (((mk_slice (s_arr Int) (s_off " + c.intSort(64) + ") (s_len " + c.intSort(64) + ") (s_cap " + c.intSort(64) + ")))))")
	c.decl("(declare-datatypes ((Iface 0)) (((mk_iface (i_typ Int) (i_val Int)))))")
	return c
}

func (c *Ctx) note(s string) { c.notes[s] = true }

func (c *Ctx) decl(s string) {
	if !c.declared[s] {
		c.declared[s] = true
		c.decls = append(c.decls, s)
	}
}

func (c *Ctx) assert(s string) {
	c.asserts = append(c.asserts, s)
	c.assertTag = append(c.assertTag, c.curTag)
}

// global runs f with assertions tagged as global: facts emitted once per term (interior references, closed
// entry heap, set views) are needed wherever the term is used, not only below the block that used it first.
func (c *Ctx) global(f func()) {
	t := c.curTag
	c.curTag = -1
	f()
	c.curTag = t
}

func (c *Ctx) fresh(prefix string, s Sort) string {
	c.nfresh++
	n := fmt.Sprintf("%s!%d", sanitize(prefix), c.nfresh)
	c.decl(fmt.Sprintf("(declare-const %s %s)", n, s))
	return n
}

func (c *Ctx) constant(name string, s Sort) string {
	c.decl(fmt.Sprintf("(declare-const %s %s)", name, s))
	return name
}

func sanitize(s string) string {
	var b strings.Builder
	for _, r := range s {
		switch {
		case r >= 'a' && r <= 'z', r >= 'A' && r <= 'Z', r >= '0' && r <= '9', r == '_', r == '!', r == '.', r == '$':
			b.WriteRune(r)
		case r == '*':
			b.WriteString("ptr_")
		case r == '[':
			b.WriteString("_L")
		case r == ']':
			b.WriteString("R_")
		default:
			b.WriteRune('_')
		}
	}
	return b.String()
}

// intSort returns the sort used for a Go integer of the given width.
func (c *Ctx) intSort(width int) Sort {
	if c.mathInts {
		return SInt
	}
	return fmt.Sprintf("(_ BitVec %d)", width)
}

type intInfo struct {
	width  int
	signed bool
}

func basicIntInfo(t types.Type) (intInfo, bool) {
	b, ok := t.Underlying().(*types.Basic)
	if !ok {
		return intInfo{}, false
	}
	switch b.Kind() {
	case types.Int8:
		return intInfo{8, true}, true
	case types.Int16:
		return intInfo{16, true}, true
	case types.Int32:
		return intInfo{32, true}, true
	case types.Int64, types.Int, types.UntypedInt, types.UntypedRune:
		return intInfo{64, true}, true
	case types.Uint8:
		return intInfo{8, false}, true
	case types.Uint16:
		return intInfo{16, false}, true
	case types.Uint32:
		return intInfo{32, false}, true
	case types.Uint64, types.Uint, types.Uintptr:
		return intInfo{64, false}, true
	}
	return intInfo{}, false
}

func isString(t types.Type) bool {
	b, ok := t.Underlying().(*types.Basic)
	return ok && b.Info()&types.IsString != 0
}
func isBool(t types.Type) bool {
	b, ok := t.Underlying().(*types.Basic)
	return ok && b.Info()&types.IsBoolean != 0
}
func isFloat(t types.Type) bool {
	b, ok := t.Underlying().(*types.Basic)
	return ok && b.Info()&types.IsFloat != 0
}

func (c *Ctx) typeName(t types.Type) string {
	return sanitize(types.TypeString(t, c.qual))
}

// sortOf maps a Go type to an SMT sort (declaring datatypes as needed).
func (c *Ctx) sortOf(t types.Type) Sort {
	t = types.Unalias(t)
	switch u := t.(type) {
	case *types.TypeParam:
		n := "TP_" + sanitize(u.Obj().Name())
		c.decl(fmt.Sprintf("(declare-sort %s 0)", n))
		return n
	case *types.Named:
		if _, ok := u.Underlying().(*types.Struct); ok {
			return c.structSort(u, u.Underlying().(*types.Struct))
		}
		return c.sortOf(u.Underlying())
	case *types.Basic:
		if ii, ok := basicIntInfo(u); ok {
			return c.intSort(ii.width)
		}
		switch {
		case u.Info()&types.IsBoolean != 0:
			return SBool
		case u.Info()&types.IsString != 0:
			c.useStrings = true
			return SString
		case u.Kind() == types.Float64 || u.Kind() == types.UntypedFloat:
			c.useFP = true
			return "(_ FloatingPoint 11 53)"
		case u.Kind() == types.Float32:
			c.useFP = true
			return "(_ FloatingPoint 8 24)"
		case u.Kind() == types.UnsafePointer:
			return SRef
		case u.Kind() == types.UntypedNil:
			return SRef
		}
		n := "U_" + sanitize(u.Name())
		c.decl(fmt.Sprintf("(declare-sort %s 0)", n))
		return n
	case *types.Pointer, *types.Map, *types.Chan, *types.Signature:
		return SRef
	case *types.Slice:
		return SSlice
	case *types.Interface:
		return SIface
	case *types.Struct:
		return c.structSort(nil, u)
	case *types.Array:
		return fmt.Sprintf("(Array %s %s)", c.intSort(64), c.sortOf(u.Elem()))
	case *types.Tuple:
		return "TUPLE"
	}
	n := "U_" + c.typeName(t)
	c.decl(fmt.Sprintf("(declare-sort %s 0)", n))
	return n
}

func (c *Ctx) structName(named *types.Named, st *types.Struct) string {
	if named != nil {
		n := "S_" + c.typeName(named)
		full := types.TypeString(named, nil)
		if c.prog != nil && st != nil && st.NumFields() > 0 {
			// a type declared as another struct type (`type B A`, also for instantiations A[K, V]) is that struct
			if canon, ok := c.prog.StructCanon[st.Field(0).Pos()]; ok && onlyTypeParamArgs(named) {
				n = "S_" + sanitize(canon)
				dp := c.prog.Fset.Position(st.Field(0).Pos())
				full = fmt.Sprintf("declared at %s:%d: %s", dp.Filename, dp.Line, canon)
			}
		}
		// two different packages may share a package name (sync vs internal/sync): disambiguate by path
		if prev, ok := c.structFull[n]; ok && prev != full {
			n += fmt.Sprintf("_%x", hashString(full))
		} else if c.structFull != nil {
			c.structFull[n] = full
		}
		return n
	}
	return "S_anon_" + fmt.Sprintf("%x", hashString(types.TypeString(st, c.qual)))
}

// onlyTypeParamArgs: the named type is not instantiated with concrete types (whose struct would differ in sorts).
func onlyTypeParamArgs(n *types.Named) bool {
	ta := n.TypeArgs()
	for i := 0; i < ta.Len(); i++ {
		if _, ok := types.Unalias(ta.At(i)).(*types.TypeParam); !ok {
			return false
		}
	}
	return true
}

// fieldName: SMT-safe name of a struct field; blank fields ("_") are made unique by their source position.
func fieldName(f *types.Var) string {
	if f.Name() == "_" {
		return fmt.Sprintf("_blank%d", int(f.Pos()))
	}
	return sanitize(f.Name())
}

func hashString(s string) uint32 {
	h := uint32(2166136261)
	for i := 0; i < len(s); i++ {
		h ^= uint32(s[i])
		h *= 16777619
	}
	return h
}

func (c *Ctx) structSort(named *types.Named, st *types.Struct) Sort {
	name := c.structName(named, st)
	if c.dtDone[name] {
		return name
	}
	c.dtDone[name] = true
	var fields []string
	for i := 0; i < st.NumFields(); i++ {
		f := st.Field(i)
		fields = append(fields, fmt.Sprintf("(%s!%s %s)", name, fieldName(f), c.sortOf(f.Type())))
	}
	if len(fields) == 0 {
		c.decl(fmt.Sprintf("(declare-datatypes ((%s 0)) (((mk_%s))))", name, name))
	} else {
		c.decl(fmt.Sprintf("(declare-datatypes ((%s 0)) (((mk_%s %s))))", name, name, strings.Join(fields, " ")))
	}
	return name
}

// structOf returns the struct type and its name for a (possibly named) struct type.
func (c *Ctx) structOf(t types.Type) (*types.Struct, string, bool) {
	t = types.Unalias(t)
	if n, ok := t.(*types.Named); ok {
		if st, ok := n.Underlying().(*types.Struct); ok {
			return st, c.structName(n, st), true
		}
		return nil, "", false
	}
	if st, ok := t.(*types.Struct); ok {
		return st, c.structName(nil, st), true
	}
	return nil, "", false
}

func isStructType(t types.Type) bool {
	_, ok := types.Unalias(t).Underlying().(*types.Struct)
	return ok
}
func isArrayType(t types.Type) bool {
	_, ok := types.Unalias(t).Underlying().(*types.Array)
	return ok
}

// ---- heap classes ----

func (c *Ctx) class(name string, s Sort) string {
	if _, ok := c.classes[name]; !ok {
		c.classes[name] = s
		c.classList = append(c.classList, name)
		sort.Strings(c.classList)
	}
	return name
}

func (c *Ctx) fieldClass(structName string, f *types.Var) string {
	return c.class("F_"+structName+"_"+fieldName(f), fmt.Sprintf("(Array Int %s)", c.sortOf(f.Type())))
}

func sortKey(s Sort) string {
	return sanitize(strings.NewReplacer("(", "", ")", "", " ", "_").Replace(s))
}

// classKey: the heap-class key of a value type.  With mathematical integers both Go integers and references
// have sort Int; they are kept in separate classes (an []int and an []*int never share a backing array).
func (c *Ctx) classKey(t types.Type) string {
	s := c.sortOf(t)
	if c.mathInts && s == SInt {
		if b, ok := types.Unalias(t).Underlying().(*types.Basic); ok && b.Info()&types.IsInteger != 0 {
			return "MInt"
		}
	}
	return sortKey(s)
}

func (c *Ctx) elemClass(elem types.Type) string {
	s := c.sortOf(elem)
	return c.class("E_"+c.classKey(elem), fmt.Sprintf("(Array Int (Array %s %s))", c.intSort(64), s))
}
func (c *Ctx) cellClass(elem types.Type) string {
	s := c.sortOf(elem)
	return c.class("C_"+c.classKey(elem), fmt.Sprintf("(Array Int %s)", s))
}
func (c *Ctx) mapDomClass(m *types.Map) string {
	k, v := c.sortOf(m.Key()), c.sortOf(m.Elem())
	return c.class("MD_"+sortKey(k)+"__"+sortKey(v), fmt.Sprintf("(Array Int (Array %s Bool))", k))
}
func (c *Ctx) mapValClass(m *types.Map) string {
	k, v := c.sortOf(m.Key()), c.sortOf(m.Elem())
	return c.class("MV_"+sortKey(k)+"__"+sortKey(v), fmt.Sprintf("(Array Int (Array %s %s))", k, v))
}

// subRef: interior reference for a struct-typed (or array-typed) field of a struct object.
// Interior references are negative, injective per (struct, field), and share the "root" of their owner.
func (c *Ctx) subRef(structName string, f *types.Var, base string) string {
	fn := "sub_" + structName + "_" + fieldName(f)
	c.decl("(declare-fun root (Int) Int)")
	c.decl("(declare-fun subtag (Int) Int)")
	c.decl(fmt.Sprintf("(declare-fun %s (Int) Int)", fn))
	c.decl(fmt.Sprintf("(declare-fun %s_inv (Int) Int)", fn))
	t := fmt.Sprintf("(%s %s)", fn, base)
	key := "subfacts:" + t
	if !c.declared[key] && !strings.Contains(t, "q_") { // (terms under a quantifier mention bound variables: no global facts)
		c.declared[key] = true
		if _, ok := c.tagOf["sub:"+fn]; !ok {
			c.tagOf["sub:"+fn] = len(c.tagOf) + 1
		}
		c.global(func() {
			c.assert(fmt.Sprintf("(and (< %s 0) (= (root %s) (root %s)) (= (%s_inv %s) %s) (= (subtag %s) %d))", t, t, base, fn, t, base, t, c.tagOf["sub:"+fn]))
		})
	} else if strings.Contains(t, "q_") && !c.declared["subfactsQ:"+fn] {
		// used under a quantifier: the same facts, once, for every argument
		c.declared["subfactsQ:"+fn] = true
		if _, ok := c.tagOf["sub:"+fn]; !ok {
			c.tagOf["sub:"+fn] = len(c.tagOf) + 1
		}
		c.useQuant = true
		c.global(func() {
			c.assert(fmt.Sprintf("(forall ((qx Int)) (! (and (< (%s qx) 0) (= (root (%s qx)) (root qx)) (= (%s_inv (%s qx)) qx) (= (subtag (%s qx)) %d)) :pattern ((%s qx))))", fn, fn, fn, fn, fn, c.tagOf["sub:"+fn], fn))
		})
	}
	return t
}

func (c *Ctx) elemRef(arr, idx string) string {
	c.decl("(declare-fun root (Int) Int)")
	c.decl("(declare-fun subtag (Int) Int)")
	c.decl(fmt.Sprintf("(declare-fun elemref (Int %s) Int)", c.intSort(64)))
	c.decl("(declare-fun elemref_arr (Int) Int)")
	c.decl(fmt.Sprintf("(declare-fun elemref_idx (Int) %s)", c.intSort(64)))
	t := fmt.Sprintf("(elemref %s %s)", arr, idx)
	key := "subfacts:" + t
	if !c.declared[key] && !strings.Contains(t, "q_") { // (terms under a quantifier mention bound variables: no global facts)
		c.declared[key] = true
		c.global(func() {
			c.assert(fmt.Sprintf("(and (< %s 0) (= (root %s) (root %s)) (= (elemref_arr %s) %s) (= (elemref_idx %s) %s) (= (subtag %s) 0))", t, t, arr, t, arr, t, idx, t))
		})
	} else if strings.Contains(t, "q_") && !c.declared["subfactsQ:elemref"] {
		c.declared["subfactsQ:elemref"] = true
		c.useQuant = true
		c.global(func() {
			c.assert(fmt.Sprintf("(forall ((qa Int) (qi %s)) (! (and (< (elemref qa qi) 0) (= (root (elemref qa qi)) (root qa)) (= (elemref_arr (elemref qa qi)) qa) (= (elemref_idx (elemref qa qi)) qi) (= (subtag (elemref qa qi)) 0)) :pattern ((elemref qa qi))))", c.intSort(64)))
		})
	}
	return t
}

func (c *Ctx) root(t string) string {
	c.decl("(declare-fun root (Int) Int)")
	return "(root " + t + ")"
}

// ---- literals ----

func (c *Ctx) intLit(v *big.Int, width int) string {
	if c.mathInts {
		if v.Sign() < 0 {
			return fmt.Sprintf("(- %s)", new(big.Int).Neg(v).String())
		}
		return v.String()
	}
	m := new(big.Int).Lsh(big.NewInt(1), uint(width))
	x := new(big.Int).Mod(v, m)
	return fmt.Sprintf("(_ bv%s %d)", x.String(), width)
}

func (c *Ctx) intLit64(v int64, width int) string { return c.intLit(big.NewInt(v), width) }

func smtString(s string) string {
	var b strings.Builder
	b.WriteByte('"')
	for i := 0; i < len(s); i++ {
		ch := s[i]
		switch {
		case ch == '"':
			b.WriteString("\"\"")
		case ch < 32 || ch > 126 || ch == '\\':
			fmt.Fprintf(&b, "\\u{%x}", ch)
		default:
			b.WriteByte(ch)
		}
	}
	b.WriteByte('"')
	return b.String()
}

// zero value of a Go type as SMT term.
func (c *Ctx) zero(t types.Type) string {
	t = types.Unalias(t)
	if ii, ok := basicIntInfo(t); ok {
		return c.intLit64(0, ii.width)
	}
	switch u := t.Underlying().(type) {
	case *types.Basic:
		switch {
		case u.Info()&types.IsBoolean != 0:
			return "false"
		case u.Info()&types.IsString != 0:
			return "\"\""
		case u.Kind() == types.Float64:
			return "(_ +zero 11 53)"
		case u.Kind() == types.Float32:
			return "(_ +zero 8 24)"
		}
		return "0"
	case *types.Pointer, *types.Map, *types.Chan, *types.Signature:
		return "0"
	case *types.Slice:
		z := c.intLit64(0, 64)
		return fmt.Sprintf("(mk_slice 0 %s %s %s)", z, z, z)
	case *types.Interface:
		if _, ok := t.(*types.TypeParam); ok {
			break
		}
		return "(mk_iface 0 0)"
	case *types.Struct:
		_, name, _ := c.structOf(t)
		c.sortOf(t)
		if u.NumFields() == 0 {
			return "mk_" + name
		}
		var fs []string
		for i := 0; i < u.NumFields(); i++ {
			fs = append(fs, c.zero(u.Field(i).Type()))
		}
		return fmt.Sprintf("(mk_%s %s)", name, strings.Join(fs, " "))
	case *types.Array:
		return fmt.Sprintf("((as const %s) %s)", c.sortOf(t), c.zero(u.Elem()))
	}
	// type parameter or unknown: an uninterpreted zero constant per sort
	s := c.sortOf(t)
	n := "zero_" + sortKey(s)
	c.decl(fmt.Sprintf("(declare-const %s %s)", n, s))
	return n
}

// typeTag returns a positive integer identifying a dynamic type inside interfaces.
func (c *Ctx) typeTag(t types.Type) int {
	k := types.TypeString(types.Unalias(t), nil)
	if n, ok := c.tagOf[k]; ok {
		return n
	}
	n := len(c.tagOf) + 1
	c.tagOf[k] = n
	return n
}

// box/unbox: injective embedding of values of sort s into interface payload ints.
func (c *Ctx) box(s Sort, term string) string {
	if s == SRef {
		return term
	}
	k := sortKey(s)
	c.decl(fmt.Sprintf("(declare-fun box_%s (%s) Int)", k, s))
	c.decl(fmt.Sprintf("(declare-fun unbox_%s (Int) %s)", k, s))
	c.assert(fmt.Sprintf("(= (unbox_%s (box_%s %s)) %s)", k, k, term, term))
	return fmt.Sprintf("(box_%s %s)", k, term)
}
func (c *Ctx) unbox(s Sort, term string) string {
	if s == SRef {
		return term
	}
	k := sortKey(s)
	c.decl(fmt.Sprintf("(declare-fun box_%s (%s) Int)", k, s))
	c.decl(fmt.Sprintf("(declare-fun unbox_%s (Int) %s)", k, s))
	return fmt.Sprintf("(unbox_%s %s)", k, term)
}

func and(xs ...string) string {
	var ys []string
	for _, x := range xs {
		if x == "true" || x == "" {
			continue
		}
		if x == "false" {
			return "false"
		}
		ys = append(ys, x)
	}
	switch len(ys) {
	case 0:
		return "true"
	case 1:
		return ys[0]
	}
	return "(and " + strings.Join(ys, " ") + ")"
}

func or(xs ...string) string {
	var ys []string
	for _, x := range xs {
		if x == "false" || x == "" {
			continue
		}
		if x == "true" {
			return "true"
		}
		ys = append(ys, x)
	}
	switch len(ys) {
	case 0:
		return "false"
	case 1:
		return ys[0]
	}
	return "(or " + strings.Join(ys, " ") + ")"
}

func not(x string) string {
	switch x {
	case "true":
		return "false"
	case "false":
		return "true"
	}
	return "(not " + x + ")"
}

func implies(a, b string) string {
	if a == "true" {
		return b
	}
	if b == "true" || a == "false" {
		return "true"
	}
	return "(=> " + a + " " + b + ")"
}

func ite(c, a, b string) string {
	if c == "true" {
		return a
	}
	if c == "false" {
		return b
	}
	if a == b {
		return a
	}
	return "(ite " + c + " " + a + " " + b + ")"
}

func eq(a, b string) string {
	if a == b {
		return "true"
	}
	if strings.HasPrefix(a, "(_ bv") && strings.HasPrefix(b, "(_ bv") && !strings.Contains(a[1:], "(") && !strings.Contains(b[1:], "(") {
		return "false" // two different bitvector literals
	}
	return "(= " + a + " " + b + ")"
}
