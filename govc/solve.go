package main

// Discharging obligations: SMT-LIB emission and racing the installed solvers.

import (
	"bytes"
	"context"
	"fmt"
	"os"
	"os/exec"
	"path/filepath"
	"runtime"
	"strings"
	"sync"
	"time"
)

type SolveResult struct {
	Name     string
	Status   string // unsat | sat | unknown | timeout | error
	Solver   string
	Seconds  float64
	Model    map[string]string
	Raw      string
	SMTBytes int
	Per      map[string]string // solver -> status
	File     string
}

type solverSpec struct {
	name string
	bin  string
	args func(timeoutS int) []string
	pre  string
}

var solvers = []solverSpec{
	{"z3-new", "z3-new", func(t int) []string { return []string{fmt.Sprintf("-T:%d", t), "-smt2", "-in"} }, ""},
	{"z3", "/usr/bin/z3", func(t int) []string { return []string{fmt.Sprintf("-T:%d", t), "-smt2", "-in"} }, ""},
	{"cvc5", "cvc5", func(t int) []string {
		return []string{fmt.Sprintf("--tlimit=%d", t*1000), "--strings-exp", "--lang=smt2", "--produce-models"}
	}, "(set-logic ALL)\n"},
}

func smtText(c *Ctx, o *Obligation) string {
	var b strings.Builder
	// sorts and datatypes first (heap classes seeded from an earlier pass may mention them before they are re-declared)
	for _, d := range c.decls {
		if strings.HasPrefix(d, "(declare-datatypes") || strings.HasPrefix(d, "(declare-sort") {
			b.WriteString(d)
			b.WriteByte('\n')
		}
	}
	for _, d := range c.decls {
		if strings.HasPrefix(d, "(declare-datatypes") || strings.HasPrefix(d, "(declare-sort") {
			continue
		}
		b.WriteString(d)
		b.WriteByte('\n')
	}
	n := o.NAsserts
	if n > len(c.asserts) {
		n = len(c.asserts)
	}
	for i, a := range c.asserts[:n] {
		if a == "true" {
			continue
		}
		if o.Anc != nil && i < len(c.assertTag) && c.assertTag[i] >= 0 && !o.Anc[c.assertTag[i]] {
			continue // made while translating a block that cannot reach the obligation's block
		}
		b.WriteString("(assert ")
		b.WriteString(a)
		b.WriteString(")\n")
	}
	if o.Guard != "" && o.Guard != "true" {
		fmt.Fprintf(&b, "(assert %s)\n", o.Guard)
	}
	for _, e := range o.Extra {
		fmt.Fprintf(&b, "(assert %s)\n", e)
	}
	fmt.Fprintf(&b, "(assert %s)\n", not(o.Goal))
	b.WriteString("(check-sat)\n")
	if len(o.ModelVars) > 0 {
		var ts []string
		for _, mv := range o.ModelVars {
			ts = append(ts, mv.Term)
		}
		fmt.Fprintf(&b, "(get-value (%s))\n", strings.Join(ts, " "))
	}
	return b.String()
}

var procSem = make(chan struct{}, max(3, runtime.NumCPU()-2))

type solverHint struct {
	solver  string
	seconds float64
}

// solverHints: obligation name -> solver that discharged it fastest in the calibration run
// (baseline/<id>.hints).  Affects only the order in which solvers are started.
var solverHints = map[string]solverHint{}

func loadHints(path string) {
	data, err := os.ReadFile(path)
	if err != nil {
		return
	}
	for _, l := range strings.Split(string(data), "\n") {
		f := strings.Split(l, "\t")
		if len(f) != 3 {
			continue
		}
		var s float64
		fmt.Sscanf(f[2], "%g", &s)
		solverHints[f[0]] = solverHint{f[1], s}
	}
}

func runSolver(ctx context.Context, sp solverSpec, text string, timeoutS int) (status string, out string) {
	procSem <- struct{}{}
	defer func() { <-procSem }()
	if ctx.Err() != nil {
		return "cancelled", ""
	}
	cctx, cancel := context.WithTimeout(ctx, time.Duration(timeoutS+5)*time.Second)
	defer cancel()
	cmd := exec.CommandContext(cctx, sp.bin, sp.args(timeoutS)...)
	cmd.Stdin = strings.NewReader(sp.pre + text)
	var buf bytes.Buffer
	cmd.Stdout = &buf
	cmd.Stderr = &buf
	_ = cmd.Run()
	out = buf.String()
	first := strings.TrimSpace(strings.SplitN(out, "\n", 2)[0])
	switch first {
	case "sat", "unsat", "unknown":
		return first, out
	case "timeout":
		return "timeout", out
	}
	if ctx.Err() != nil {
		return "cancelled", out
	}
	if strings.Contains(out, "timeout") || cctx.Err() != nil {
		return "timeout", out
	}
	if strings.Contains(first, "interrupted") {
		return "timeout", out
	}
	return "error", out
}

// Solve races the solvers on one obligation.
func Solve(c *Ctx, o *Obligation, timeoutS int, all bool, dumpDir string) *SolveResult {
	if (o.Kind == "layout" || o.Kind == "forkjoin") && (o.Goal == "true" || o.Goal == "false") {
		// decided by evaluation / syntactic analysis of the real code; no solver involved
		st := "unsat"
		if o.Goal == "false" {
			st = "sat"
		}
		return &SolveResult{Name: o.Name, Status: st, Solver: "evaluation", Per: map[string]string{"evaluation": st}}
	}
	text := smtText(c, o)
	if o.ExpectSat && timeoutS > 5 {
		timeoutS = 5 // vacuity checks: an inconclusive answer is accepted, so do not wait long
	}
	res := &SolveResult{Name: o.Name, SMTBytes: len(text), Per: map[string]string{}}
	if dumpDir != "" {
		f := filepath.Join(dumpDir, sanitize(o.Name)+".smt2")
		os.WriteFile(f, []byte(text), 0o644)
		res.File = f
	}
	if len(text) > 8<<20 {
		res.Status = "error"
		res.Raw = "VC exceeds size cap (8 MB)"
		return res
	}
	start := time.Now()
	ctx, cancel := context.WithCancel(context.Background())
	defer cancel()
	type ans struct {
		solver, status, out string
	}
	ch := make(chan ans, len(solvers))
	var wg sync.WaitGroup
	for _, sp := range solvers {
		if c.useFP && sp.name == "z3" {
			// old z3 is slow on FP; still run
		}
		wg.Add(1)
		go func(sp solverSpec) {
			defer wg.Done()
			// staged start (scheduling only): a solver that is not the hinted one joins after a delay;
			// without a hint the old z3 joins when the other two have not answered quickly
			delay := time.Duration(0)
			if !all {
				if h, ok := solverHints[o.Name]; ok && h.solver != sp.name {
					delay = time.Duration((2 + 3*h.seconds) * float64(time.Second))
				} else if !ok && sp.name == "z3" {
					delay = 2 * time.Second
				}
			}
			if delay > 0 {
				select {
				case <-ctx.Done():
					ch <- ans{sp.name, "cancelled", ""}
					return
				case <-time.After(delay):
				}
			}
			st, out := runSolver(ctx, sp, text, timeoutS)
			ch <- ans{sp.name, st, out}
		}(sp)
	}
	go func() { wg.Wait(); close(ch) }()
	var errOut string
	for a := range ch {
		res.Per[a.solver] = a.status
		if a.status == "sat" || a.status == "unsat" {
			if res.Status == "sat" || res.Status == "unsat" {
				if res.Status != a.status {
					res.Status = "error"
					res.Raw = fmt.Sprintf("solver disagreement: %s says %s, %s says %s", res.Solver, res.Per[res.Solver], a.solver, a.status)
					cancel()
					break
				}
				continue
			}
			res.Status = a.status
			res.Solver = a.solver
			res.Seconds = time.Since(start).Seconds()
			res.Raw = a.out
			if a.status == "sat" {
				res.Model = parseModel(a.out, o.ModelVars)
			}
			if !all {
				cancel()
			}
		} else if a.status == "error" {
			errOut = a.solver + ": " + a.out
		}
	}
	if res.Status == "" {
		res.Seconds = time.Since(start).Seconds()
		res.Status = "unknown"
		allErr := true
		for _, st := range res.Per {
			if st == "timeout" {
				res.Status = "timeout"
			}
			if st != "error" {
				allErr = false
			}
		}
		if allErr {
			res.Status = "error"
		}
		res.Raw = errOut
	}
	return res
}

// lastSexp returns the last top-level s-expression (or atom) of s.
func lastSexp(s string) string {
	s = strings.TrimSpace(s)
	depth := 0
	start := 0
	last := s
	i := 0
	for i < len(s) {
		ch := s[i]
		switch {
		case ch == '"':
			j := i + 1
			for j < len(s) {
				if s[j] == '"' {
					if j+1 < len(s) && s[j+1] == '"' {
						j += 2
						continue
					}
					break
				}
				j++
			}
			if depth == 0 {
				last = s[i:min(j+1, len(s))]
			}
			i = j + 1
			start = i
			continue
		case ch == '(':
			if depth == 0 {
				start = i
			}
			depth++
		case ch == ')':
			depth--
			if depth == 0 {
				last = s[start : i+1]
				start = i + 1
			}
		case ch == ' ' || ch == '\n' || ch == '\t':
			if depth == 0 {
				if i > start {
					last = s[start:i]
				}
				start = i + 1
			}
		}
		i++
	}
	if depth == 0 && start < len(s) && strings.TrimSpace(s[start:]) != "" {
		last = strings.TrimSpace(s[start:])
	}
	return last
}

// parseModel extracts (term value) pairs from a get-value answer.
func parseModel(out string, vars []ModelVar) map[string]string {
	m := map[string]string{}
	k := strings.Index(out, "\n")
	if k < 0 {
		return m
	}
	body := out[k+1:]
	// tokenise s-expressions at depth 2
	depth := 0
	start := -1
	var items []string
	for i := 0; i < len(body); i++ {
		switch body[i] {
		case '(':
			depth++
			if depth == 2 {
				start = i
			}
		case ')':
			if depth == 2 && start >= 0 {
				items = append(items, body[start:i+1])
				start = -1
			}
			depth--
		case '"':
			// skip string literal
			j := i + 1
			for j < len(body) {
				if body[j] == '"' {
					if j+1 < len(body) && body[j+1] == '"' {
						j += 2
						continue
					}
					break
				}
				j++
			}
			i = j
		}
	}
	for idx, it := range items {
		if idx >= len(vars) {
			break
		}
		inner := strings.TrimSpace(it[1 : len(it)-1])
		// the answer is "(term value)" with the term echoed in the solver's own syntax: take the last top-level element
		m[vars[idx].Name] = lastSexp(inner)
	}
	return m
}
