package main

// Replay of solver counterexamples on the real code.
//
// For a failed postcondition of a function whose inputs are scalars, strings, structs and pointers to
// structs (a few levels deep), the model is turned into concrete Go values, the REAL function is run in an
// in-package test injected with `go test -overlay` (nothing is written to /repo), its results and the
// post-state of its inputs are read back, and the violated clause is evaluated on those concrete values
// (the clause is re-translated over a state that holds exactly the observed values, and the solver is asked
// whether it can still be true).  Safety obligations replay as "did the real call panic".

import (
	"bytes"
	"context"
	"encoding/json"
	"fmt"
	"go/types"
	"math/big"
	"os"
	"os/exec"
	"path/filepath"
	"sort"
	"strings"
	"time"

	"golang.org/x/tools/go/ssa"
)

type inNode struct {
	name   string
	path   string // Go access path from the root variable, e.g. "a0.Spec.X"
	t      types.Type
	kind   string // scalar | ptr | struct | iface | slice | skip
	term   string // SMT term (value for scalar, ref for ptr)
	kids   []*inNode
	field  *types.Var
	val    string // model value
	elemOf *inNode
}

type replayPlan struct {
	g      *FuncGen
	roots  []*inNode
	leaves []*inNode
	ok     bool
	why    string
}

func (rp *replayPlan) build(name, path string, t types.Type, term string, depth int, viaPtr bool) *inNode {
	g := rp.g
	c := g.c
	n := &inNode{name: name, path: path, t: t, term: term}
	u := types.Unalias(t).Underlying()
	switch x := u.(type) {
	case *types.Basic:
		n.kind = "scalar"
		if x.Kind() == types.UnsafePointer || x.Info()&types.IsComplex != 0 {
			n.kind = "skip"
		}
	case *types.Pointer:
		n.kind = "ptr"
		if depth > 3 {
			n.kind = "skip"
			break
		}
		el := x.Elem()
		if isStructType(el) {
			n.kids = append(n.kids, rp.buildStructFields(name, "(*"+path+")", el, term, depth+1, true)...)
		} else if _, ok := el.Underlying().(*types.Basic); ok {
			cl := "C_" + sortKey(c.sortOf(el))
			if _, known := c.classes[cl]; known {
				n.kids = append(n.kids, rp.build("*"+name, "(*"+path+")", el, fmt.Sprintf("(select %s@0 %s)", cl, term), depth+1, true))
			}
		} else {
			n.kind = "skip"
		}
	case *types.Struct:
		n.kind = "struct"
		_, sname, _ := c.structOf(t)
		c.sortOf(t)
		for i := 0; i < x.NumFields(); i++ {
			f := x.Field(i)
			k := rp.build(name+"."+f.Name(), path+"."+f.Name(), f.Type(), fmt.Sprintf("(%s!%s %s)", sname, fieldName(f), term), depth+1, false)
			k.field = f
			n.kids = append(n.kids, k)
		}
	case *types.Interface:
		n.kind = "iface"
	case *types.Array:
		n.kind = "skip"
		if _, ok := x.Elem().Underlying().(*types.Basic); ok && x.Len() <= 16 {
			n.kind = "array"
			for i := int64(0); i < x.Len(); i++ {
				k := rp.build(fmt.Sprintf("%s[%d]", name, i), fmt.Sprintf("%s[%d]", path, i), x.Elem(), fmt.Sprintf("(select %s %s)", term, c.intLit64(i, 64)), depth+1, false)
				n.kids = append(n.kids, k)
			}
		}
	case *types.Slice:
		n.kind = "slice"
		if _, ok := x.Elem().Underlying().(*types.Basic); !ok {
			n.kind = "skip"
			break
		}
		cl := "E_" + c.classKey(x.Elem())
		if _, known := c.classes[cl]; !known {
			break
		}
		for i := 0; i < 6; i++ {
			idx := g.add64(fmt.Sprintf("(s_off %s)", term), c.intLit64(int64(i), 64))
			k := rp.build(fmt.Sprintf("%s[%d]", name, i), fmt.Sprintf("%s[%d]", path, i), x.Elem(), fmt.Sprintf("(select (select %s@0 (s_arr %s)) %s)", cl, term, idx), depth+1, false)
			k.elemOf = n
			n.kids = append(n.kids, k)
		}
	default:
		n.kind = "skip"
	}
	return n
}

// buildStructFields: fields of the struct object at ref (heap-resident).
func (rp *replayPlan) buildStructFields(name, path string, t types.Type, ref string, depth int, viaPtr bool) []*inNode {
	g := rp.g
	c := g.c
	st, sname, _ := c.structOf(t)
	var out []*inNode
	for i := 0; i < st.NumFields(); i++ {
		f := st.Field(i)
		fname := name + "." + f.Name()
		fpath := path + "." + f.Name()
		if isStructType(f.Type()) {
			if depth > 3 {
				continue
			}
			n := &inNode{name: fname, path: fpath, t: f.Type(), kind: "heapstruct", field: f}
			n.kids = rp.buildStructFields(fname, fpath, f.Type(), c.subRef(sname, f, ref), depth+1, true)
			out = append(out, n)
			continue
		}
		if isArrayType(f.Type()) {
			continue
		}
		cl := "F_" + sname + "_" + fieldName(f)
		if _, known := c.classes[cl]; !known {
			continue // the function never touches this field
		}
		k := rp.build(fname, fpath, f.Type(), fmt.Sprintf("(select %s@0 %s)", cl, ref), depth, false)
		k.field = f
		out = append(out, k)
	}
	return out
}

func (rp *replayPlan) collect(n *inNode) {
	switch n.kind {
	case "scalar", "ptr", "iface", "slice":
		rp.leaves = append(rp.leaves, n)
	}
	for _, k := range n.kids {
		rp.collect(k)
	}
}

// ---------- model values -> Go literals ----------

func parseSMTInt(v string) (*big.Int, bool) {
	v = strings.TrimSpace(v)
	switch {
	case strings.HasPrefix(v, "#x"):
		n, ok := new(big.Int).SetString(v[2:], 16)
		return n, ok
	case strings.HasPrefix(v, "#b"):
		n, ok := new(big.Int).SetString(v[2:], 2)
		return n, ok
	case strings.HasPrefix(v, "(_ bv"):
		var s string
		var w int
		fmt.Sscanf(v, "(_ bv%s %d)", &s, &w)
		n, ok := new(big.Int).SetString(s, 10)
		return n, ok
	case strings.HasPrefix(v, "(-"):
		inner := strings.TrimSpace(strings.TrimSuffix(strings.TrimPrefix(v, "(-"), ")"))
		n, ok := new(big.Int).SetString(inner, 10)
		if ok {
			n.Neg(n)
		}
		return n, ok
	}
	n, ok := new(big.Int).SetString(v, 10)
	return n, ok
}

func smtStringToGo(v string) (string, bool) {
	v = strings.TrimSpace(v)
	if len(v) < 2 || v[0] != '"' || v[len(v)-1] != '"' {
		return "", false
	}
	body := strings.ReplaceAll(v[1:len(v)-1], "\"\"", "\"")
	var b strings.Builder
	for i := 0; i < len(body); i++ {
		if strings.HasPrefix(body[i:], "\\u{") {
			j := strings.Index(body[i:], "}")
			if j > 0 {
				n, ok := new(big.Int).SetString(body[i+3:i+j], 16)
				if ok && n.Int64() < 256 {
					b.WriteByte(byte(n.Int64()))
					i += j
					continue
				}
				return "", false
			}
		}
		b.WriteByte(body[i])
	}
	return b.String(), true
}

func goScalarLit(t types.Type, v string) (string, bool) {
	if ii, ok := basicIntInfo(t); ok {
		n, ok := parseSMTInt(v)
		if !ok {
			return "", false
		}
		if ii.signed {
			half := new(big.Int).Lsh(big.NewInt(1), uint(ii.width-1))
			if n.Cmp(half) >= 0 {
				n.Sub(n, new(big.Int).Lsh(big.NewInt(1), uint(ii.width)))
			}
		}
		return n.String(), true
	}
	if isBool(t) {
		return strings.TrimSpace(v), v == "true" || v == "false"
	}
	if isString(t) {
		s, ok := smtStringToGo(v)
		if !ok {
			return "", false
		}
		return fmt.Sprintf("%q", s), true
	}
	return "", false
}

// ---------- replay driver ----------

type replayOutcome struct {
	Reproduced bool
	Log        string
	TestFile   string
}

// replayRace runs the package's own tests under the race detector: a reported DATA RACE inside the function
// reproduces a fork/join violation on the real code.
func replayRace(P *Program, full string) (bool, string) {
	fn := P.FindFunc(full)
	if fn == nil || fn.Pkg == nil {
		return false, "function not found"
	}
	pkgDir := ""
	for _, p := range P.Pkgs {
		if p.Types == fn.Pkg.Pkg && len(p.GoFiles) > 0 {
			pkgDir = filepath.Dir(p.GoFiles[0])
		}
	}
	if pkgDir == "" {
		return false, "package directory not found"
	}
	ctx, cancel := context.WithTimeout(context.Background(), 15*time.Minute)
	defer cancel()
	cmd := exec.CommandContext(ctx, "go", "test", "-race", "-vet=off", "-count=1", "-timeout", "300s", ".")
	cmd.Dir = pkgDir
	env := []string{}
	for _, e := range goEnv() {
		if !strings.HasPrefix(e, "CGO_ENABLED=") {
			env = append(env, e)
		}
	}
	cmd.Env = append(env, "CGO_ENABLED=1") // the race detector needs cgo
	var buf bytes.Buffer
	cmd.Stdout, cmd.Stderr = &buf, &buf
	err := cmd.Run()
	out := buf.String()
	short := fn.Name()
	if fn.Parent() != nil {
		short = fn.Parent().Name()
	}
	if strings.Contains(out, "DATA RACE") && strings.Contains(out, short) {
		k := strings.Index(out, "WARNING: DATA RACE")
		return true, fmt.Sprintf("`go test -race` of %s reports a data race inside %s  => REPRODUCED on the real code\n%s", pkgDir, short, firstLines(out[k:], 24))
	}
	return false, fmt.Sprintf("`go test -race` of %s did not report a race in %s (exit: %v)", pkgDir, short, err)
}

// CustomReplay: a hand-written executable witness kept in /verif/replay_tests (registered in props.json) for
// obligations whose violation cannot be replayed from a solver model (ghost checks inside big functions).
// The test asserts the property on the real code and fails (printing GOVC-REPLAY-REPRODUCED) when it is broken.
type CustomReplay struct {
	Match string `json:"match"` // substring of the obligation name
	Pkg   string `json:"pkg"`   // package directory relative to /repo
	File  string `json:"file"`  // test file relative to /verif
	Run   string `json:"run"`   // -run pattern
}

var customReplays []CustomReplay

func runCustomReplay(cr CustomReplay) (bool, string) {
	pkgDir := filepath.Join(repoRoot, cr.Pkg)
	testFile := filepath.Join(verifRoot, cr.File)
	ov := map[string]map[string]string{"Replace": {filepath.Join(pkgDir, "zz_govc_replay_test.go"): testFile}}
	ovData, _ := json.Marshal(ov)
	dir := filepath.Join(verifRoot, "replays")
	os.MkdirAll(dir, 0o755)
	ovFile := filepath.Join(dir, "custom_overlay_"+sanitize(cr.Match)+".json")
	os.WriteFile(ovFile, ovData, 0o644)
	ctx, cancel := context.WithTimeout(context.Background(), 10*time.Minute)
	defer cancel()
	cmd := exec.CommandContext(ctx, "go", "test", "-overlay", ovFile, "-vet=off", "-count=1", "-timeout", "120s", "-run", cr.Run, ".")
	cmd.Dir = pkgDir
	cmd.Env = goEnv()
	var buf bytes.Buffer
	cmd.Stdout, cmd.Stderr = &buf, &buf
	err := cmd.Run()
	out := buf.String()
	for _, ln := range strings.Split(out, "\n") {
		if strings.Contains(ln, "GOVC-REPLAY-REPRODUCED") {
			return true, fmt.Sprintf("witness test %s (%s) run against the real package %s fails: %s  => REPRODUCED on the real code", cr.File, cr.Run, cr.Pkg, strings.TrimSpace(ln))
		}
	}
	return false, fmt.Sprintf("witness test %s (%s) did not reproduce the violation on the real package (go test: %v)", cr.File, cr.Run, err)
}

func tryReplay(P *Program, id string, r *oblRun) (bool, string) {
	for _, cr := range customReplays {
		if strings.Contains(r.o.Name, cr.Match) {
			return runCustomReplay(cr)
		}
	}
	if r.o.Kind == "forkjoin" && r.res.Status == "sat" {
		return replayRace(P, r.o.Func)
	}
	if r.u == nil || r.u.res == nil || r.u.res.Gen == nil || r.res.Status != "sat" {
		return false, "no model to replay"
	}
	g := r.u.res.Gen
	if g.fn == nil || g.fn.Pkg == nil {
		return false, "not a function obligation"
	}
	kind := r.o.Kind
	if kind != "postcondition" && kind != "safety" {
		return false, "obligation kind " + kind + " has no executable replay (its model is a mid-function state, not a function input)"
	}
	if kind == "postcondition" && r.o.Clause == nil {
		return false, "no clause recorded"
	}
	out, err := replayOnRealCode(P, id, g, r)
	if err != nil {
		return false, "replay not possible: " + err.Error()
	}
	return out.Reproduced, out.Log
}

func replayOnRealCode(P *Program, id string, g *FuncGen, r *oblRun) (res *replayOutcome, err error) {
	defer func() {
		if rec := recover(); rec != nil {
			if ue, ok := rec.(unsupportedErr); ok {
				err = fmt.Errorf("%s", ue.msg)
				return
			}
			panic(rec)
		}
	}()
	fn := g.fn
	sig := fn.Signature
	if sig.TypeParams() != nil || sig.RecvTypeParams() != nil {
		return nil, fmt.Errorf("generic function")
	}
	rp := &replayPlan{g: g}
	for i, p := range fn.Params {
		v := g.vals[p]
		n := rp.build(p.Name(), fmt.Sprintf("a%d", i), p.Type(), v.T, 0, false)
		rp.roots = append(rp.roots, n)
		rp.collect(n)
	}
	// 1. model values for all leaves
	o2 := *r.o
	o2.ModelVars = nil
	for _, l := range rp.leaves {
		t := l.term
		switch l.kind {
		case "iface":
			t = fmt.Sprintf("(i_typ %s)", l.term)
		case "slice":
			t = fmt.Sprintf("(s_len %s)", l.term)
		}
		o2.ModelVars = append(o2.ModelVars, ModelVar{l.name, t})
	}
	if len(o2.ModelVars) > 0 {
		sr := Solve(g.c, &o2, 30, false, "")
		if sr.Status != "sat" {
			return nil, fmt.Errorf("could not re-obtain a model (%s)", sr.Status)
		}
		for _, l := range rp.leaves {
			l.val = sr.Model[l.name]
		}
	}
	// 2. Go test source
	src, imports, err := rp.goTest(fn.Pkg.Pkg, fn.Name(), sig)
	if err != nil {
		return nil, err
	}
	pkgDir := ""
	for _, p := range P.Pkgs {
		if p.Types == fn.Pkg.Pkg && len(p.GoFiles) > 0 {
			pkgDir = filepath.Dir(p.GoFiles[0])
		}
	}
	if pkgDir == "" {
		return nil, fmt.Errorf("package directory not found")
	}
	_ = imports
	dir := filepath.Join(verifRoot, "replays", id)
	os.MkdirAll(dir, 0o755)
	base := sanitize(r.o.Name)
	testFile := filepath.Join(dir, base+"_replay_test.go")
	os.WriteFile(testFile, []byte(src), 0o644)
	ov := map[string]map[string]string{"Replace": {filepath.Join(pkgDir, "zz_govc_replay_test.go"): testFile}}
	ovData, _ := json.Marshal(ov)
	ovFile := filepath.Join(dir, base+"_overlay.json")
	os.WriteFile(ovFile, ovData, 0o644)
	ctx, cancel := context.WithTimeout(context.Background(), 10*time.Minute)
	defer cancel()
	cmd := exec.CommandContext(ctx, "go", "test", "-overlay", ovFile, "-vet=off", "-count=1", "-v", "-timeout", "60s", "-run", "^TestGovcReplay$", ".")
	cmd.Dir = pkgDir
	cmd.Env = goEnv()
	var buf bytes.Buffer
	cmd.Stdout, cmd.Stderr = &buf, &buf
	runErr := cmd.Run()
	output := buf.String()
	logb := &strings.Builder{}
	fmt.Fprintf(logb, "real function %s called with the model's inputs via go test -overlay (test file %s)\n", fn.String(), testFile)
	for _, l := range rp.leaves {
		if l.val != "" {
			fmt.Fprintf(logb, "    input %s = %s\n", l.name, l.val)
		}
	}
	panicked := strings.Contains(output, "GOVC-REPLAY-PANIC:")
	obsLine := ""
	for _, ln := range strings.Split(output, "\n") {
		if strings.HasPrefix(ln, "GOVC-REPLAY-JSON: ") {
			obsLine = ln[len("GOVC-REPLAY-JSON: "):]
		}
		if strings.HasPrefix(ln, "GOVC-REPLAY-PANIC:") {
			fmt.Fprintf(logb, "    %s\n", ln)
		}
	}
	if r.o.Kind == "safety" {
		if panicked {
			fmt.Fprintf(logb, "  REPRODUCED: the real call panicked")
			return &replayOutcome{Reproduced: true, Log: logb.String(), TestFile: testFile}, nil
		}
		fmt.Fprintf(logb, "  not reproduced: the real call did not panic (test exit: %v)", runErr)
		return &replayOutcome{Log: logb.String(), TestFile: testFile}, nil
	}
	if obsLine == "" {
		if panicked {
			fmt.Fprintf(logb, "  the real call panicked instead of returning: postcondition not evaluated")
			return &replayOutcome{Reproduced: false, Log: logb.String(), TestFile: testFile}, nil
		}
		return nil, fmt.Errorf("replay test produced no observation (go test: %v): %s", runErr, firstLines(output, 12))
	}
	var obs map[string]string
	if err := json.Unmarshal([]byte(obsLine), &obs); err != nil {
		return nil, fmt.Errorf("bad observation: %v", err)
	}
	var ks []string
	for k := range obs {
		ks = append(ks, k)
	}
	sort.Strings(ks)
	for _, k := range ks {
		fmt.Fprintf(logb, "    observed %s = %s\n", k, obs[k])
	}
	// 3. evaluate the clause on the observed values
	verdict, why := rp.evalClause(P, r.o.Clause, obs)
	fmt.Fprintf(logb, "  clause %q on the observed values: %s", r.o.Text, why)
	return &replayOutcome{Reproduced: verdict, Log: logb.String(), TestFile: testFile}, nil
}

// goTest renders the in-package test.
func (rp *replayPlan) goTest(pkg *types.Package, fname string, sig *types.Signature) (string, []string, error) {
	imports := map[string]string{} // path -> alias
	qual := func(p *types.Package) string {
		if p == pkg {
			return ""
		}
		if a, ok := imports[p.Path()]; ok {
			return a
		}
		a := fmt.Sprintf("gvp%d", len(imports))
		imports[p.Path()] = a
		return a
	}
	var body strings.Builder
	var setup func(n *inNode) error
	setup = func(n *inNode) error {
		switch n.kind {
		case "scalar":
			if n.val == "" {
				return nil
			}
			if n.field != nil && !n.field.Exported() && n.field.Pkg() != pkg {
				return nil
			}
			lit, ok := goScalarLit(n.t, n.val)
			if !ok {
				return fmt.Errorf("cannot render %s = %s", n.name, n.val)
			}
			fmt.Fprintf(&body, "\t%s = %s(%s)\n", n.path, types.TypeString(n.t, qual), lit)
		case "ptr":
			if n.field != nil && !n.field.Exported() && n.field.Pkg() != pkg {
				return nil
			}
			ref, ok := parseSMTInt(n.val)
			if n.val == "" || !ok || ref.Sign() == 0 {
				return nil // nil pointer (zero value)
			}
			el := types.Unalias(n.t).Underlying().(*types.Pointer).Elem()
			fmt.Fprintf(&body, "\t%s = new(%s)\n", n.path, types.TypeString(el, qual))
			for _, k := range n.kids {
				if err := setup(k); err != nil {
					return err
				}
			}
		case "struct", "heapstruct", "array":
			if n.field != nil && !n.field.Exported() && n.field.Pkg() != pkg {
				return nil
			}
			for _, k := range n.kids {
				if err := setup(k); err != nil {
					return err
				}
			}
		case "iface":
			tv, ok := parseSMTInt(n.val)
			if n.val != "" && ok && tv.Sign() != 0 {
				return fmt.Errorf("non-nil interface input %s", n.name)
			}
		case "slice":
			ln, ok := parseSMTInt(n.val)
			if n.val == "" || !ok || ln.Sign() == 0 {
				return nil
			}
			if ln.Int64() > 6 || ln.Sign() < 0 {
				return fmt.Errorf("slice input %s of length %s", n.name, ln)
			}
			fmt.Fprintf(&body, "\t%s = make(%s, %d)\n", n.path, types.TypeString(n.t, qual), ln.Int64())
			for i, k := range n.kids {
				if int64(i) < ln.Int64() {
					if err := setup(k); err != nil {
						return err
					}
				}
			}
		case "skip":
		}
		return nil
	}
	var decls strings.Builder
	var args []string
	for i, root := range rp.roots {
		fmt.Fprintf(&decls, "\tvar a%d %s\n", i, types.TypeString(root.t, qual))
		if err := setup(root); err != nil {
			return "", nil, err
		}
	}
	// call expression
	call := ""
	params := rp.roots
	if sig.Recv() != nil {
		call = fmt.Sprintf("a0.%s(", fname)
		params = rp.roots[1:]
		for i := range params {
			args = append(args, fmt.Sprintf("a%d", i+1))
		}
	} else {
		call = fname + "("
		for i := range params {
			args = append(args, fmt.Sprintf("a%d", i))
		}
	}
	if sig.Variadic() && len(args) > 0 {
		args[len(args)-1] += "..."
	}
	call += strings.Join(args, ", ") + ")"
	var resNames []string
	for i := 0; i < sig.Results().Len(); i++ {
		resNames = append(resNames, fmt.Sprintf("r%d", i))
	}
	var obs strings.Builder
	for i := 0; i < sig.Results().Len(); i++ {
		rt := sig.Results().At(i).Type()
		rn := fmt.Sprintf("r%d", i)
		switch u := types.Unalias(rt).Underlying().(type) {
		case *types.Basic:
			fmt.Fprintf(&obs, "\tobs[%q] = fmt.Sprint(%s)\n", "res"+fmt.Sprint(i), rn)
		case *types.Interface:
			fmt.Fprintf(&obs, "\tobs[%q] = fmt.Sprint(%s == nil)\n", "res"+fmt.Sprint(i)+".isnil", rn)
		case *types.Pointer:
			fmt.Fprintf(&obs, "\tobs[%q] = fmt.Sprint(%s == nil)\n", "res"+fmt.Sprint(i)+".isnil", rn)
			if st, ok := u.Elem().Underlying().(*types.Struct); ok {
				fmt.Fprintf(&obs, "\tif %s != nil {\n", rn)
				for j := 0; j < st.NumFields(); j++ {
					f := st.Field(j)
					if _, isB := f.Type().Underlying().(*types.Basic); isB && (f.Exported() || f.Pkg() == pkg) {
						fmt.Fprintf(&obs, "\t\tobs[%q] = fmt.Sprint(%s.%s)\n", fmt.Sprintf("res%d.%s", i, f.Name()), rn, f.Name())
					}
				}
				fmt.Fprintf(&obs, "\t}\n")
			}
		case *types.Struct:
			for j := 0; j < u.NumFields(); j++ {
				f := u.Field(j)
				if !(f.Exported() || f.Pkg() == pkg) {
					continue
				}
				if _, isB := f.Type().Underlying().(*types.Basic); isB {
					fmt.Fprintf(&obs, "\tobs[%q] = fmt.Sprint(%s.%s)\n", fmt.Sprintf("res%d.%s", i, f.Name()), rn, f.Name())
				}
				if at, isA := f.Type().Underlying().(*types.Array); isA && at.Len() <= 16 {
					if _, isB := at.Elem().Underlying().(*types.Basic); isB {
						for k := int64(0); k < at.Len(); k++ {
							fmt.Fprintf(&obs, "\tobs[%q] = fmt.Sprint(%s.%s[%d])\n", fmt.Sprintf("res%d.%s[%d]", i, f.Name(), k), rn, f.Name(), k)
						}
					}
				}
			}
		}
	}
	// post-state of scalar leaves reachable from inputs
	var post func(n *inNode, guard []string)
	post = func(n *inNode, guard []string) {
		switch n.kind {
		case "scalar":
			if n.field != nil && !n.field.Exported() && n.field.Pkg() != pkg {
				return
			}
			if n.elemOf != nil {
				return
			}
			line := fmt.Sprintf("obs[%q] = fmt.Sprint(%s)", "post:"+n.name, n.path)
			if len(guard) > 0 {
				fmt.Fprintf(&obs, "\tif %s {\n\t\t%s\n\t}\n", strings.Join(guard, " && "), line)
			} else {
				fmt.Fprintf(&obs, "\t%s\n", line)
			}
		case "ptr":
			if n.field != nil && !n.field.Exported() && n.field.Pkg() != pkg {
				return
			}
			g2 := append(append([]string{}, guard...), n.path+" != nil")
			for _, k := range n.kids {
				post(k, g2)
			}
		case "struct", "heapstruct":
			for _, k := range n.kids {
				post(k, guard)
			}
		}
	}
	for _, root := range rp.roots {
		post(root, nil)
	}
	var b strings.Builder
	fmt.Fprintf(&b, "// Code generated by govc for replay; injected with go test -overlay. DO NOT EDIT.\npackage %s\n\nimport (\n\t\"encoding/json\"\n\t\"fmt\"\n\t\"testing\"\n", pkg.Name())
	var ips []string
	for p := range imports {
		ips = append(ips, p)
	}
	sort.Strings(ips)
	for _, p := range ips {
		fmt.Fprintf(&b, "\t%s %q\n", imports[p], p)
	}
	fmt.Fprintf(&b, ")\n\nfunc TestGovcReplay(t *testing.T) {\n")
	b.WriteString(decls.String())
	b.WriteString(body.String())
	fmt.Fprintf(&b, "\tobs := map[string]string{}\n\tdefer func() {\n\t\tif r := recover(); r != nil {\n\t\t\tfmt.Printf(\"GOVC-REPLAY-PANIC: %%v\\n\", r)\n\t\t\tt.Fatalf(\"panic: %%v\", r)\n\t\t}\n\t}()\n")
	if len(resNames) > 0 {
		fmt.Fprintf(&b, "\t%s := %s\n", strings.Join(resNames, ", "), call)
		for _, rn := range resNames {
			fmt.Fprintf(&b, "\t_ = %s\n", rn)
		}
	} else {
		fmt.Fprintf(&b, "\t%s\n", call)
	}
	b.WriteString(obs.String())
	fmt.Fprintf(&b, "\tjs, _ := json.Marshal(obs)\n\tfmt.Printf(\"GOVC-REPLAY-JSON: %%s\\n\", js)\n}\n")
	return b.String(), ips, nil
}

// evalClause re-translates the clause over a state holding exactly the model's inputs (old state) and the
// observed outputs (current state) and asks the solver whether it can be true / false.
func (rp *replayPlan) evalClause(P *Program, clause Expr, obs map[string]string) (bool, string) {
	g0 := rp.g
	c := newCtxOpts(P, g0.c.mathInts)
	g := &FuncGen{c: c, prog: P, fn: g0.fn, contract: nil, pkg: g0.pkg, vals: map[ssa.Value]Val{}, params: map[string]Val{},
		safety: false, postParts: map[int][]string{}, callOrd: map[string]int{}, safeSeen: map[string]int{}}
	// same heap classes as the original unit
	for _, cl := range g0.c.classList {
		c.class(cl, g0.c.classes[cl])
	}
	old := &State{heap: map[string]string{}, ghost: map[string]string{}, hwm: c.constant("hwm@0", SInt)}
	cur := &State{heap: map[string]string{}, ghost: map[string]string{}, hwm: c.constant("hwm@1", SInt)}
	for _, cl := range c.classList {
		old.heap[cl] = c.constant(cl+"@0", c.classes[cl])
		cur.heap[cl] = c.constant(cl+"@post", c.classes[cl])
	}
	c.assert("(<= 0 hwm@0)")
	c.assert("(<= hwm@0 hwm@1)")
	g.entry = old
	// parameters: same constants as in the original VC (p!name), pinned to the model values
	vars := map[string]Val{}
	for i, p := range g0.fn.Params {
		s := c.sortOf(p.Type())
		term := c.constant("p!"+sanitize(p.Name()), s)
		vars[p.Name()] = Val{T: term, S: s, GT: p.Type()}
		_ = i
	}
	var facts []string
	// inputs (old state) from the model; post state from observations where available, else unchanged inputs are NOT assumed
	for _, l := range rp.leaves {
		if l.val == "" {
			continue
		}
		switch l.kind {
		case "scalar":
			lit, ok := modelToSMT(c, l.t, l.val)
			if ok {
				facts = append(facts, eq(l.term, lit))
			}
			if ov, ok := obs["post:"+l.name]; ok && strings.Contains(l.term, "@0") {
				if plit, ok := goValToSMT(c, l.t, ov); ok {
					facts = append(facts, eq(strings.ReplaceAll(l.term, "@0", "@post"), plit))
				}
			}
		case "ptr":
			if n, ok := parseSMTInt(l.val); ok {
				facts = append(facts, eq(l.term, mathLit(n)))
				if strings.Contains(l.term, "@0") {
					facts = append(facts, eq(strings.ReplaceAll(l.term, "@0", "@post"), mathLit(n)))
				}
			}
		case "iface":
			facts = append(facts, eq(fmt.Sprintf("(i_typ %s)", l.term), "0"))
		case "slice":
			if n, ok := parseSMTInt(l.val); ok {
				facts = append(facts, eq(fmt.Sprintf("(s_len %s)", l.term), c.intLit(n, 64)))
			}
		}
	}
	// results
	sig := g0.fn.Signature
	var results []Val
	for i := 0; i < sig.Results().Len(); i++ {
		rt := sig.Results().At(i).Type()
		s := c.sortOf(rt)
		term := c.constant(fmt.Sprintf("res!%d", i), s)
		results = append(results, Val{T: term, S: s, GT: rt})
		switch u := types.Unalias(rt).Underlying().(type) {
		case *types.Basic:
			if lit, ok := goValToSMT(c, rt, obs[fmt.Sprintf("res%d", i)]); ok {
				facts = append(facts, eq(term, lit))
			}
		case *types.Interface:
			if obs[fmt.Sprintf("res%d.isnil", i)] == "true" {
				facts = append(facts, eq(term, "(mk_iface 0 0)"))
			} else {
				facts = append(facts, not(eq(fmt.Sprintf("(i_typ %s)", term), "0")))
			}
		case *types.Pointer:
			if obs[fmt.Sprintf("res%d.isnil", i)] == "true" {
				facts = append(facts, eq(term, "0"))
			} else {
				facts = append(facts, fmt.Sprintf("(> %s hwm@0)", term), fmt.Sprintf("(= (root %s) %s)", term, term))
				c.root("0")
				if st, ok := u.Elem().Underlying().(*types.Struct); ok {
					_, sname, _ := c.structOf(u.Elem())
					for j := 0; j < st.NumFields(); j++ {
						f := st.Field(j)
						if ov, ok := obs[fmt.Sprintf("res%d.%s", i, f.Name())]; ok {
							cl := "F_" + sname + "_" + fieldName(f)
							if _, known := c.classes[cl]; known {
								if lit, ok := goValToSMT(c, f.Type(), ov); ok {
									facts = append(facts, eq(fmt.Sprintf("(select %s@post %s)", cl, term), lit))
								}
							}
						}
					}
				}
			}
		case *types.Struct:
			_, sname, _ := c.structOf(rt)
			for j := 0; j < u.NumFields(); j++ {
				f := u.Field(j)
				if ov, ok := obs[fmt.Sprintf("res%d.%s", i, f.Name())]; ok {
					if lit, ok := goValToSMT(c, f.Type(), ov); ok {
						facts = append(facts, eq(fmt.Sprintf("(%s!%s %s)", sname, fieldName(f), term), lit))
					}
				}
				if at, isA := f.Type().Underlying().(*types.Array); isA {
					for k := int64(0); k < at.Len() && k < 16; k++ {
						if ov, ok := obs[fmt.Sprintf("res%d.%s[%d]", i, f.Name(), k)]; ok {
							if lit, ok := goValToSMT(c, at.Elem(), ov); ok {
								facts = append(facts, eq(fmt.Sprintf("(select (%s!%s %s) %s)", sname, fieldName(f), term, c.intLit64(k, 64)), lit))
							}
						}
					}
				}
			}
		}
	}
	env := &Env{g: g, vars: vars, cur: cur, old: old, pkg: g0.pkg}
	bindResults(env.vars, sig, results, nil)
	var goal string
	func() {
		defer func() {
			if rec := recover(); rec != nil {
				goal = ""
			}
		}()
		goal = g.trBool(env, clause, "")
	}()
	if goal == "" {
		return false, "could not be evaluated (clause not translatable in the replay context)"
	}
	for _, f := range facts {
		c.assert(f)
	}
	canBeFalse := Solve(c, &Obligation{Name: "replay-eval-neg", Guard: "true", Goal: goal, NAsserts: len(c.asserts)}, 20, false, "")
	canBeTrue := Solve(c, &Obligation{Name: "replay-eval-pos", Guard: "true", Goal: not(goal), NAsserts: len(c.asserts)}, 20, false, "")
	switch {
	case canBeFalse.Status == "sat" && canBeTrue.Status == "unsat":
		return true, "FALSE  => REPRODUCED on the real code"
	case canBeFalse.Status == "unsat":
		return false, "true (the real code satisfies the clause on this input: the counterexample came from an abstraction, e.g. a havocked call)"
	}
	return false, fmt.Sprintf("undetermined (depends on values the replay does not observe; neg=%s pos=%s)", canBeFalse.Status, canBeTrue.Status)
}

func modelToSMT(c *Ctx, t types.Type, v string) (string, bool) {
	if ii, ok := basicIntInfo(t); ok {
		n, ok := parseSMTInt(v)
		if !ok {
			return "", false
		}
		return c.intLit(n, ii.width), true
	}
	if isBool(t) {
		return strings.TrimSpace(v), v == "true" || v == "false"
	}
	if isString(t) {
		s, ok := smtStringToGo(v)
		if !ok {
			return "", false
		}
		return smtString(s), true
	}
	return "", false
}

// goValToSMT converts fmt.Sprint output of a Go scalar to an SMT literal of the type's sort.
func goValToSMT(c *Ctx, t types.Type, v string) (string, bool) {
	if ii, ok := basicIntInfo(t); ok {
		n, ok := new(big.Int).SetString(strings.TrimSpace(v), 10)
		if !ok {
			return "", false
		}
		return c.intLit(n, ii.width), true
	}
	if isBool(t) {
		return v, v == "true" || v == "false"
	}
	if isString(t) {
		return smtString(v), true
	}
	return "", false
}
