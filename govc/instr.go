package main

// Semantics of go/ssa instructions.

import (
	"fmt"
	"go/constant"
	"go/token"
	"go/types"
	"math/big"
	"strings"

	"golang.org/x/tools/go/ssa"
)

func (g *FuncGen) value(v ssa.Value) Val {
	if x, ok := g.vals[v]; ok {
		return x
	}
	c := g.c
	switch k := v.(type) {
	case *ssa.Const:
		return g.constVal(k)
	case *ssa.Global:
		// address of a package-level variable: a cell/struct ref constant per global
		name := "glob_" + sanitize(k.Pkg.Pkg.Name()+"."+k.Name())
		t := c.constant(name, SInt)
		pt := k.Type().Underlying().(*types.Pointer).Elem()
		val := Val{T: t, S: SInt, GT: k.Type()}
		if !isStructType(pt) && !isArrayType(pt) {
			val.P = &PtrDesc{Kind: PCell, Base: t, Class: c.cellClass(pt), Elem: pt}
		}
		c.global(func() { c.assert(fmt.Sprintf("(and (< 0 %s) (<= %s hwm@0) (= %s %s))", t, t, c.root(t), t)) })
		g.vals[v] = val
		return val
	case *ssa.Function:
		name := "fn_" + sanitize(k.String())
		t := c.constant(name, SInt)
		c.global(func() { c.assert(fmt.Sprintf("(< 0 %s)", t)) })
		val := Val{T: t, S: SInt, GT: k.Type(), Clo: &Closure{Fn: k}}
		g.vals[v] = val
		return val
	case *ssa.Builtin:
		return Val{T: "0", S: SInt}
	}
	g.unsup("value %s (%T) used before definition", v.Name(), v)
	return Val{}
}

func (g *FuncGen) constVal(k *ssa.Const) Val {
	c := g.c
	t := k.Type()
	s := c.sortOf(t)
	if k.Value == nil {
		return Val{T: c.zero(t), S: s, GT: t}
	}
	if ii, ok := basicIntInfo(t); ok {
		bi, _ := new(big.Int).SetString(constant.ToInt(k.Value).ExactString(), 10)
		if bi == nil {
			g.unsup("int constant %s", k.Value)
		}
		return Val{T: c.intLit(bi, ii.width), S: s, GT: t}
	}
	switch {
	case isBool(t):
		if constant.BoolVal(k.Value) {
			return Val{T: "true", S: SBool, GT: t}
		}
		return Val{T: "false", S: SBool, GT: t}
	case isString(t):
		return Val{T: smtString(constant.StringVal(k.Value)), S: SString, GT: t}
	case isFloat(t):
		f, _ := constant.Float64Val(k.Value)
		return Val{T: g.floatLit(f, s), S: s, GT: t}
	}
	g.unsup("constant of type %s", t)
	return Val{}
}

func (g *FuncGen) floatLit(f float64, s Sort) string {
	r := new(big.Rat)
	r.SetFloat64(f)
	eb, sb := 11, 53
	if strings.Contains(s, " 8 24") {
		eb, sb = 8, 24
	}
	num, den := r.Num(), r.Denom()
	neg := num.Sign() < 0
	if neg {
		num = new(big.Int).Neg(num)
	}
	t := fmt.Sprintf("((_ to_fp %d %d) RNE (/ %s.0 %s.0))", eb, sb, num.String(), den.String())
	if neg {
		t = "(fp.neg " + t + ")"
	}
	return t
}

func (g *FuncGen) set(v ssa.Value, val Val) {
	if val.GT == nil {
		val.GT = v.Type()
	}
	g.vals[v] = val
}

// define introduces a named constant for an instruction's value.
func (g *FuncGen) define(v ssa.Value, term string) Val {
	s := g.c.sortOf(v.Type())
	n := g.c.constant(g.uniq(v.Name()), s)
	g.c.assert(eq(n, term))
	val := Val{T: n, S: s, GT: v.Type()}
	if isScalarPointee(v.Type()) {
		pt := v.Type().Underlying().(*types.Pointer).Elem()
		val.P = &PtrDesc{Kind: PCell, Base: n, Class: g.c.cellClass(pt), Elem: pt}
	}
	g.vals[v] = val
	return val
}

func (g *FuncGen) freshFor(v ssa.Value) Val {
	t := v.Type()
	if tup, ok := t.(*types.Tuple); ok {
		var vs []Val
		for i := 0; i < tup.Len(); i++ {
			vs = append(vs, g.freshOfType(fmt.Sprintf("%s_%d", v.Name(), i), tup.At(i).Type()))
		}
		val := Val{Tup: vs, GT: t}
		g.vals[v] = val
		return val
	}
	val := g.freshOfType(v.Name(), t)
	g.vals[v] = val
	return val
}

func (g *FuncGen) freshOfType(name string, t types.Type) Val {
	s := g.c.sortOf(t)
	n := g.c.fresh("h_"+name, s)
	val := Val{T: n, S: s, GT: t}
	if isScalarPointee(t) {
		pt := t.Underlying().(*types.Pointer).Elem()
		val.P = &PtrDesc{Kind: PCell, Base: n, Class: g.c.cellClass(pt), Elem: pt}
	}
	g.assumeWellTyped(val, t, g.cur)
	return val
}

func (g *FuncGen) bv(op string, a, b string) string { return "(" + op + " " + a + " " + b + ")" }

// ---------- instruction dispatch ----------

func (g *FuncGen) instr(in ssa.Instruction) {
	c := g.c
	g.curInstr = in
	switch x := in.(type) {
	case *ssa.DebugRef:
		return
	case *ssa.Alloc:
		g.alloc(x)
	case *ssa.FieldAddr:
		g.fieldAddr(x)
	case *ssa.Field:
		sv := g.value(x.X)
		st, name, ok := c.structOf(x.X.Type())
		if !ok {
			g.unsup("Field on non-struct %s", x.X.Type())
		}
		c.sortOf(x.X.Type())
		f := st.Field(x.Field)
		g.set(x, Val{T: fmt.Sprintf("(%s!%s %s)", name, fieldName(f), sv.T), S: c.sortOf(f.Type()), GT: f.Type()})
	case *ssa.IndexAddr:
		g.indexAddr(x)
	case *ssa.Index:
		g.index(x)
	case *ssa.UnOp:
		g.unop(x)
	case *ssa.BinOp:
		a, b := g.value(x.X), g.value(x.Y)
		r := g.binop(x.Op, a, b, x.X.Type(), x.Y.Type(), x)
		r.GT = x.Type()
		g.set(x, r)
	case *ssa.Store:
		addr := g.value(x.Addr)
		val := g.value(x.Val)
		g.storeTo(addr, x.Addr.Type().Underlying().(*types.Pointer).Elem(), val, x)
	case *ssa.Convert:
		g.set(x, g.convert(g.value(x.X), x.X.Type(), x.Type()))
	case *ssa.ChangeType:
		v := g.value(x.X)
		v.GT = x.Type()
		if _, isTP := types.Unalias(x.X.Type()).(*types.TypeParam); isTP && c.sortOf(x.Type()) == SIface && v.T != "" {
			// a value of a type parameter converted to an interface: boxed under the type parameter's tag (its
			// dynamic type is whatever the instantiation makes it; nothing here depends on it)
			g.set(x, Val{T: fmt.Sprintf("(mk_iface %d %s)", c.typeTag(x.X.Type()), c.box(v.S, v.T)), S: SIface, GT: x.Type()})
			return
		}
		if c.sortOf(x.Type()) != v.S && v.S != "" {
			g.unsup("ChangeType between sorts %s -> %s", v.S, c.sortOf(x.Type()))
		}
		g.set(x, v)
	case *ssa.ChangeInterface:
		v := g.value(x.X)
		v.GT = x.Type()
		g.set(x, v)
	case *ssa.MakeInterface:
		v := g.value(x.X)
		t := x.X.Type()
		var payload string
		if v.T == "" || v.Tup != nil {
			payload = c.fresh("opaque", SInt)
		} else {
			payload = c.box(v.S, v.T)
			g.assumeJunkFree(v.T, t)
		}
		g.set(x, Val{T: fmt.Sprintf("(mk_iface %d %s)", c.typeTag(t), payload), S: SIface, GT: x.Type()})
	case *ssa.TypeAssert:
		g.typeAssert(x)
	case *ssa.Extract:
		tv := g.value(x.Tuple)
		if tv.Tup == nil || x.Index >= len(tv.Tup) {
			g.unsup("extract from non-tuple")
		}
		g.set(x, tv.Tup[x.Index])
	case *ssa.Slice:
		g.sliceOp(x)
	case *ssa.MakeSlice:
		g.makeSlice(x)
	case *ssa.MakeMap:
		g.makeMap(x)
	case *ssa.MapUpdate:
		g.mapUpdate(x)
	case *ssa.Lookup:
		g.lookup(x)
	case *ssa.Range:
		g.rangeInit(x)
	case *ssa.Next:
		g.next(x)
	case *ssa.MakeClosure:
		var bs []Val
		for _, b := range x.Bindings {
			bs = append(bs, g.value(b))
		}
		t := c.fresh("closure", SInt)
		c.assert(fmt.Sprintf("(< 0 %s)", t))
		g.set(x, Val{T: t, S: SInt, Clo: &Closure{Fn: x.Fn.(*ssa.Function), Bindings: bs}, GT: x.Type()})
	case *ssa.Call:
		g.call(x)
	case *ssa.Defer:
		g.defers = append(g.defers, x)
	case *ssa.RunDefers:
		for i := len(g.defers) - 1; i >= 0; i-- {
			d := g.defers[i]
			if !d.Block().Dominates(x.Block()) {
				g.unsup("conditional defer")
			}
			g.callCommon(&d.Call, nil, d)
		}
	case *ssa.Go:
		g.goStmt(x)
	case *ssa.Panic:
		g.safe("panic", x, "false", g.posText(x))
		g.c.assert(not(g.bcond[g.curBlock]))
	case *ssa.Send:
		// a send hands the value to another goroutine; it does not change the sender's state (what the receiver
		// does with it is concurrency, which contracts do not model).  Ghost statements can name it "chansend"
		// (arg0 = channel, arg1 = value sent).
		g.c.note("channel send: no effect on the sender's state (concurrency not modelled)")
		ch, v := g.value(x.Chan), g.value(x.X)
		g.ghostState = g.cur
		g.ghostAtUncontracted("chansend", []Val{ch, v}, nil)
		g.ghostState = nil
	case *ssa.Select:
		g.unsup("channel operation %s", in)
	case *ssa.If:
		cv := g.value(x.Cond)
		b := x.Block()
		g.edgeC[[2]int{b.Index, b.Succs[0].Index}] = and(g.bcond[b], cv.T)
		g.edgeC[[2]int{b.Index, b.Succs[1].Index}] = and(g.bcond[b], not(cv.T))
		if b.Succs[0] == b.Succs[1] {
			g.edgeC[[2]int{b.Index, b.Succs[0].Index}] = g.bcond[b]
		}
	case *ssa.Jump:
		b := x.Block()
		g.edgeC[[2]int{b.Index, b.Succs[0].Index}] = g.bcond[b]
	case *ssa.Return:
		g.ret(x)
	case *ssa.MultiConvert:
		g.unsup("MultiConvert")
	case *ssa.SliceToArrayPointer:
		g.unsup("SliceToArrayPointer")
	default:
		g.unsup("instruction %T: %s", in, in)
	}
}

func (g *FuncGen) posText(in ssa.Instruction) string {
	p := g.prog.Fset.Position(in.Pos())
	if !p.IsValid() {
		return fmt.Sprintf("b%d", in.Block().Index)
	}
	return g.sourceSnippet(p)
}

// sourceSnippet: a short stable text for the expression at pos (hash of the source line, trimmed).
func (g *FuncGen) sourceSnippet(p token.Position) string {
	line := g.prog.sourceLine(p)
	line = strings.TrimSpace(line)
	if len(line) > 40 {
		line = line[:40]
	}
	return fmt.Sprintf("%08x", hashString(line))
}

// ---------- memory ----------

func (g *FuncGen) newRef(label string) string {
	c := g.c
	r := c.fresh("ref_"+label, SInt)
	c.assert(fmt.Sprintf("(and (> %s %s) (= %s %s))", r, g.cur.hwm, c.root(r), r))
	nh := c.fresh("hwm", SInt)
	c.assert(eq(nh, r))
	g.cur.hwm = nh
	return r
}

func (g *FuncGen) alloc(x *ssa.Alloc) {
	c := g.c
	pt := x.Type().Underlying().(*types.Pointer).Elem()
	r := g.newRef(x.Name())
	if g.nonEsc[x] {
		g.addLocalRef(r, pt, 0)
		g.ownRefs = append(g.ownRefs, r)
	}
	switch {
	case isStructType(pt):
		g.zeroStruct(r, pt)
		g.set(x, Val{T: r, S: SInt, GT: x.Type()})
	case isArrayType(pt):
		at := pt.Underlying().(*types.Array)
		if isStructType(at.Elem()) {
			// elements live at interior references elemref(r, i); a literal's array is small: zero each element
			if at.Len() > 64 {
				g.unsup("array of more than 64 structs")
			}
			for i := int64(0); i < at.Len(); i++ {
				g.zeroStruct(c.elemRef(r, c.intLit64(i, 64)), at.Elem())
			}
			g.set(x, Val{T: r, S: SInt, GT: x.Type()})
			return
		}
		cl := c.elemClass(at.Elem())
		g.heapStore(cl, r, fmt.Sprintf("((as const (Array %s %s)) %s)", c.intSort(64), c.sortOf(at.Elem()), c.zero(at.Elem())))
		g.set(x, Val{T: r, S: SInt, GT: x.Type()})
	default:
		cl := c.cellClass(pt)
		g.heapStore(cl, r, c.zero(pt))
		g.set(x, Val{T: r, S: SInt, GT: x.Type(), P: &PtrDesc{Kind: PCell, Base: r, Class: cl, Elem: pt}})
	}
}

// addLocalRef records a non-escaping local object (and the interior references of its struct/array-valued
// fields) together with the heap classes that can hold its data.
func (g *FuncGen) addLocalRef(ref string, t types.Type, depth int) {
	c := g.c
	if g.localRefClasses == nil {
		g.localRefClasses = map[string]map[string]bool{}
	}
	cls := map[string]bool{}
	g.localRefs = append(g.localRefs, ref)
	g.localRefClasses[ref] = cls
	switch {
	case isStructType(t):
		st, name, ok := c.structOf(t)
		if !ok || depth > 4 {
			delete(g.localRefClasses, ref) // unknown shape: preserve in every class
			return
		}
		for i := 0; i < st.NumFields(); i++ {
			f := st.Field(i)
			if isStructType(f.Type()) || isArrayType(f.Type()) {
				g.addLocalRef(c.subRef(name, f, ref), f.Type(), depth+1)
				continue
			}
			cls[c.fieldClass(name, f)] = true
		}
		// ghost fields of the struct live in G_ classes named after it
		for _, cl := range c.classList {
			if strings.HasPrefix(cl, "G_"+name+"_") {
				cls[cl] = true
			}
		}
	case isArrayType(t):
		at := t.Underlying().(*types.Array)
		if isStructType(at.Elem()) {
			delete(g.localRefClasses, ref)
			return
		}
		cls[c.elemClass(at.Elem())] = true
	default:
		cls[c.cellClass(t)] = true
	}
}

func (g *FuncGen) heapStore(class, ref, val string) {
	c := g.c
	old := g.heapOf(g.cur, class)
	n := c.fresh(class, c.classes[class])
	c.assert(eq(n, fmt.Sprintf("(store %s %s %s)", old, ref, val)))
	g.cur.heap[class] = n
}

func (g *FuncGen) zeroStruct(ref string, t types.Type) {
	st, name, _ := g.c.structOf(t)
	for i := 0; i < st.NumFields(); i++ {
		f := st.Field(i)
		if isStructType(f.Type()) {
			g.zeroStruct(g.c.subRef(name, f, ref), f.Type())
			continue
		}
		if isArrayType(f.Type()) {
			at := f.Type().Underlying().(*types.Array)
			cl := g.c.elemClass(at.Elem())
			g.heapStore(cl, g.c.subRef(name, f, ref), fmt.Sprintf("((as const (Array %s %s)) %s)", g.c.intSort(64), g.c.sortOf(at.Elem()), g.c.zero(at.Elem())))
			continue
		}
		g.heapStore(g.c.fieldClass(name, f), ref, g.c.zero(f.Type()))
	}
}

func (g *FuncGen) nonNil(v Val, in ssa.Instruction, what string) {
	if g.isFreshRef(v.T) {
		return
	}
	g.safe("nil", in, fmt.Sprintf("(not (= %s 0))", v.T), what)
}

func (g *FuncGen) isFreshRef(t string) bool {
	return strings.HasPrefix(t, "ref_")
}

func (g *FuncGen) fieldAddr(x *ssa.FieldAddr) {
	c := g.c
	base := g.value(x.X)
	pt := x.X.Type().Underlying().(*types.Pointer).Elem()
	st, name, ok := c.structOf(pt)
	if !ok {
		g.unsup("FieldAddr on %s", pt)
	}
	f := st.Field(x.Field)
	g.nonNil(base, x, exprText(x.X)+"."+f.Name())
	if isStructType(f.Type()) || isArrayType(f.Type()) {
		g.set(x, Val{T: c.subRef(name, f, base.T), S: SInt, GT: x.Type()})
		return
	}
	g.set(x, Val{S: SInt, GT: x.Type(), P: &PtrDesc{Kind: PField, Base: base.T, Class: c.fieldClass(name, f), Elem: f.Type()}})
}

// exprText gives a stable human-readable name for an SSA value (source variable name when known).
func exprText(v ssa.Value) string {
	switch k := v.(type) {
	case *ssa.Parameter:
		return k.Name()
	case *ssa.FieldAddr:
		pt := k.X.Type().Underlying().(*types.Pointer).Elem()
		if st, ok := pt.Underlying().(*types.Struct); ok {
			return exprText(k.X) + "." + st.Field(k.Field).Name()
		}
	case *ssa.UnOp:
		if k.Op == token.MUL {
			return exprText(k.X)
		}
	case *ssa.Phi:
		if k.Comment != "" {
			return k.Comment
		}
	case *ssa.Alloc:
		if k.Comment != "" {
			return k.Comment
		}
	case *ssa.IndexAddr:
		return exprText(k.X) + "[]"
	case *ssa.Const:
		return k.String()
	case *ssa.FreeVar:
		return k.Name()
	}
	return "_"
}

func (g *FuncGen) indexAddr(x *ssa.IndexAddr) {
	c := g.c
	base := g.value(x.X)
	idx := g.toInt64(g.value(x.Index), x.Index.Type())
	switch t := x.X.Type().Underlying().(type) {
	case *types.Slice:
		g.safe("bounds", x, g.inRange(idx, fmt.Sprintf("(s_len %s)", base.T)), exprText(x.X))
		abs := g.add64(fmt.Sprintf("(s_off %s)", base.T), idx)
		arr := fmt.Sprintf("(s_arr %s)", base.T)
		if isStructType(t.Elem()) {
			g.set(x, Val{T: c.elemRef(arr, abs), S: SInt, GT: x.Type()})
			return
		}
		g.set(x, Val{S: SInt, GT: x.Type(), P: &PtrDesc{Kind: PElem, Base: arr, Idx: abs, Class: c.elemClass(t.Elem()), Elem: t.Elem()}})
	case *types.Pointer:
		at := t.Elem().Underlying().(*types.Array)
		g.nonNil(base, x, exprText(x.X))
		g.safe("bounds", x, g.inRange(idx, c.intLit64(at.Len(), 64)), exprText(x.X))
		if isStructType(at.Elem()) {
			g.set(x, Val{T: c.elemRef(base.T, idx), S: SInt, GT: x.Type()})
			return
		}
		g.set(x, Val{S: SInt, GT: x.Type(), P: &PtrDesc{Kind: PElem, Base: base.T, Idx: idx, Class: c.elemClass(at.Elem()), Elem: at.Elem()}})
	default:
		g.unsup("IndexAddr on %s", x.X.Type())
	}
}

func (g *FuncGen) inRange(idx, n string) string {
	if g.c.mathInts {
		return fmt.Sprintf("(and (<= 0 %s) (< %s %s))", idx, idx, n)
	}
	return fmt.Sprintf("(and (bvsle (_ bv0 64) %s) (bvslt %s %s))", idx, idx, n)
}

func (g *FuncGen) add64(a, b string) string {
	// off + (x - off) = x (absolute-index quantifier variables, option absindex)
	if g.c.mathInts {
		if pre := "(- "; strings.HasPrefix(b, pre) && strings.HasSuffix(b, " "+a+")") {
			if x := b[len(pre) : len(b)-len(a)-2]; balanced(x) {
				return x
			}
		}
		return fmt.Sprintf("(+ %s %s)", a, b)
	}
	if pre := "(bvsub "; strings.HasPrefix(b, pre) && strings.HasSuffix(b, " "+a+")") {
		if x := b[len(pre) : len(b)-len(a)-2]; balanced(x) {
			return x
		}
	}
	return fmt.Sprintf("(bvadd %s %s)", a, b)
}
// balanced: s is one complete s-expression (an atom or a parenthesised term).
func balanced(s string) bool {
	if s == "" {
		return false
	}
	if s[0] != '(' {
		return !strings.ContainsAny(s, " ()")
	}
	depth := 0
	for i, ch := range s {
		switch ch {
		case '(':
			depth++
		case ')':
			depth--
			if depth == 0 && i != len(s)-1 {
				return false
			}
		}
	}
	return depth == 0
}

func (g *FuncGen) sub64(a, b string) string {
	if g.c.mathInts {
		return fmt.Sprintf("(- %s %s)", a, b)
	}
	return fmt.Sprintf("(bvsub %s %s)", a, b)
}
func (g *FuncGen) le64(a, b string) string {
	if g.c.mathInts {
		return fmt.Sprintf("(<= %s %s)", a, b)
	}
	return fmt.Sprintf("(bvsle %s %s)", a, b)
}
func (g *FuncGen) lt64(a, b string) string {
	if g.c.mathInts {
		return fmt.Sprintf("(< %s %s)", a, b)
	}
	return fmt.Sprintf("(bvslt %s %s)", a, b)
}

// toInt64 converts an integer value to the 64-bit index sort.
func (g *FuncGen) toInt64(v Val, t types.Type) string {
	if g.c.mathInts {
		return v.T
	}
	ii, ok := basicIntInfo(t)
	if !ok || ii.width == 64 {
		return v.T
	}
	if ii.signed {
		return fmt.Sprintf("((_ sign_extend %d) %s)", 64-ii.width, v.T)
	}
	return fmt.Sprintf("((_ zero_extend %d) %s)", 64-ii.width, v.T)
}

func (g *FuncGen) index(x *ssa.Index) {
	c := g.c
	base := g.value(x.X)
	idx := g.toInt64(g.value(x.Index), x.Index.Type())
	switch t := x.X.Type().Underlying().(type) {
	case *types.Array:
		g.safe("bounds", x, g.inRange(idx, c.intLit64(t.Len(), 64)), exprText(x.X))
		g.set(x, Val{T: fmt.Sprintf("(select %s %s)", base.T, idx), S: c.sortOf(t.Elem()), GT: t.Elem()})
	case *types.Basic: // string
		g.safe("bounds", x, g.inRange(idx, g.strLen(base.T)), exprText(x.X))
		g.set(x, Val{T: g.strByte(base.T, idx), S: c.intSort(8), GT: types.Typ[types.Uint8]})
	default:
		g.unsup("Index on %s", x.X.Type())
	}
}

func (g *FuncGen) strLen(s string) string {
	if g.c.mathInts {
		return fmt.Sprintf("(str.len %s)", s)
	}
	return fmt.Sprintf("((_ int2bv 64) (str.len %s))", s)
}

func (g *FuncGen) strByte(s, idx string) string {
	if g.c.mathInts {
		return fmt.Sprintf("(str.to_code (str.at %s %s))", s, idx)
	}
	return fmt.Sprintf("((_ int2bv 8) (str.to_code (str.at %s (bv2nat %s))))", s, idx)
}

// loadFrom reads the value of type t at the address described by addr.
func (g *FuncGen) loadFrom(addr Val, t types.Type, st *State) Val {
	c := g.c
	if isStructType(t) {
		return g.loadStruct(addr.T, t, st)
	}
	if isArrayType(t) {
		at := t.Underlying().(*types.Array)
		cl := c.elemClass(at.Elem())
		return Val{T: fmt.Sprintf("(select %s %s)", g.heapOf(st, cl), addr.T), S: c.sortOf(t), GT: t}
	}
	p := addr.P
	if p == nil {
		// SMT-level pointer to a cell
		p = &PtrDesc{Kind: PCell, Base: addr.T, Class: c.cellClass(t), Elem: t}
	}
	s := c.sortOf(t)
	switch p.Kind {
	case PField, PCell:
		return Val{T: fmt.Sprintf("(select %s %s)", g.heapOf(st, p.Class), p.Base), S: s, GT: t}
	case PElem:
		return Val{T: fmt.Sprintf("(select (select %s %s) %s)", g.heapOf(st, p.Class), p.Base, p.Idx), S: s, GT: t}
	}
	g.unsup("load")
	return Val{}
}

func (g *FuncGen) loadStruct(ref string, t types.Type, st *State) Val {
	c := g.c
	stt, name, _ := c.structOf(t)
	srt := c.sortOf(t)
	if stt.NumFields() == 0 {
		return Val{T: "mk_" + name, S: srt, GT: t}
	}
	var fs []string
	for i := 0; i < stt.NumFields(); i++ {
		f := stt.Field(i)
		switch {
		case isStructType(f.Type()):
			fs = append(fs, g.loadStruct(c.subRef(name, f, ref), f.Type(), st).T)
		case isArrayType(f.Type()):
			at := f.Type().Underlying().(*types.Array)
			fs = append(fs, fmt.Sprintf("(select %s %s)", g.heapOf(st, c.elemClass(at.Elem())), c.subRef(name, f, ref)))
		default:
			fs = append(fs, fmt.Sprintf("(select %s %s)", g.heapOf(st, c.fieldClass(name, f)), ref))
		}
	}
	return Val{T: fmt.Sprintf("(mk_%s %s)", name, strings.Join(fs, " ")), S: srt, GT: t}
}

func (g *FuncGen) storeStruct(ref string, t types.Type, val string) {
	c := g.c
	stt, name, _ := c.structOf(t)
	c.sortOf(t)
	for i := 0; i < stt.NumFields(); i++ {
		f := stt.Field(i)
		fv := fmt.Sprintf("(%s!%s %s)", name, fieldName(f), val)
		switch {
		case isStructType(f.Type()):
			g.storeStruct(c.subRef(name, f, ref), f.Type(), fv)
		case isArrayType(f.Type()):
			at := f.Type().Underlying().(*types.Array)
			g.heapStore(c.elemClass(at.Elem()), c.subRef(name, f, ref), fv)
		default:
			g.heapStore(c.fieldClass(name, f), ref, fv)
		}
	}
}

func (g *FuncGen) storeTo(addr Val, t types.Type, val Val, in ssa.Instruction) {
	c := g.c
	if val.T == "" {
		if val.P != nil {
			g.unsup("storing an interior pointer")
		}
		g.unsup("storing a non-term value")
	}
	if isStructType(t) {
		if in != nil {
			g.nonNil(addr, in, "store")
		}
		g.storeStruct(addr.T, t, val.T)
		return
	}
	if isArrayType(t) {
		at := t.Underlying().(*types.Array)
		g.heapStore(c.elemClass(at.Elem()), addr.T, val.T)
		return
	}
	p := addr.P
	if p == nil {
		p = &PtrDesc{Kind: PCell, Base: addr.T, Class: c.cellClass(t), Elem: t}
	}
	switch p.Kind {
	case PCell:
		if in != nil && !g.isFreshRef(p.Base) {
			g.nonNil(Val{T: p.Base}, in, "store")
		}
		g.heapStore(p.Class, p.Base, val.T)
	case PField:
		g.heapStore(p.Class, p.Base, val.T)
	case PElem:
		old := g.heapOf(g.cur, p.Class)
		g.heapStore(p.Class, p.Base, fmt.Sprintf("(store (select %s %s) %s %s)", old, p.Base, p.Idx, val.T))
	}
}

func (g *FuncGen) unop(x *ssa.UnOp) {
	c := g.c
	v := g.value(x.X)
	switch x.Op {
	case token.MUL:
		pt := x.X.Type().Underlying().(*types.Pointer).Elem()
		if v.P == nil || v.P.Kind == PCell {
			if !g.isFreshRef(v.T) {
				g.nonNil(v, x, exprText(x.X))
			}
		}
		r := g.loadFrom(v, pt, g.cur)
		fromEntryHeap := false
		if rest := strings.TrimPrefix(strings.TrimPrefix(r.T, "(select "), "(select "); rest != r.T {
			if k := strings.IndexByte(rest, ' '); k > 0 && strings.HasSuffix(rest[:k], "@0") {
				fromEntryHeap = true
			}
		}
		r = g.define(x, r.T)
		// loaded references are allocated; a value read from a heap class that has not been written since
		// function entry refers to an object that already existed at entry (the entry heap is closed)
		if fromEntryHeap {
			g.assumeWellTyped(r, pt, g.entry)
		} else {
			g.assumeWellTyped(r, pt, g.cur)
		}
	case token.NOT:
		g.set(x, Val{T: not(v.T), S: SBool})
	case token.SUB:
		if isFloat(x.Type()) {
			g.set(x, Val{T: "(fp.neg " + v.T + ")", S: v.S})
			return
		}
		if c.mathInts {
			g.set(x, Val{T: g.wrap("(- "+v.T+")", x.Type()), S: v.S})
		} else {
			g.set(x, Val{T: "(bvneg " + v.T + ")", S: v.S})
		}
	case token.XOR:
		if c.mathInts {
			g.unsup("bitwise complement in mathint mode")
		}
		g.set(x, Val{T: "(bvnot " + v.T + ")", S: v.S})
	case token.ARROW:
		g.unsup("channel receive")
	default:
		g.unsup("unop %s", x.Op)
	}
}

// wrap reduces a mathematical integer to the range of type t (two's complement), math mode only.
func (g *FuncGen) wrap(term string, t types.Type) string {
	ii, ok := basicIntInfo(t)
	if !ok {
		return term
	}
	mod := new(big.Int).Lsh(big.NewInt(1), uint(ii.width)).String()
	if !ii.signed {
		return fmt.Sprintf("(mod %s %s)", term, mod)
	}
	half := new(big.Int).Lsh(big.NewInt(1), uint(ii.width-1)).String()
	return fmt.Sprintf("(- (mod (+ %s %s) %s) %s)", term, half, mod, half)
}

func (g *FuncGen) binop(op token.Token, a, b Val, ta, tb types.Type, in ssa.Instruction) Val {
	c := g.c
	// comparisons on non-numeric types
	switch op {
	case token.EQL, token.NEQ:
		var t string
		if a.T == "" || b.T == "" {
			g.unsup("comparison of non-term values")
		}
		if isFloat(ta) {
			t = fmt.Sprintf("(fp.eq %s %s)", a.T, b.T)
		} else {
			t = g.valuesEqual(a.T, b.T, ta)
		}
		if op == token.NEQ {
			t = not(t)
		}
		return Val{T: t, S: SBool}
	}
	if isString(ta) {
		switch op {
		case token.ADD:
			return Val{T: fmt.Sprintf("(str.++ %s %s)", a.T, b.T), S: SString}
		case token.LSS:
			return Val{T: fmt.Sprintf("(str.< %s %s)", a.T, b.T), S: SBool}
		case token.LEQ:
			return Val{T: fmt.Sprintf("(str.<= %s %s)", a.T, b.T), S: SBool}
		case token.GTR:
			return Val{T: fmt.Sprintf("(str.< %s %s)", b.T, a.T), S: SBool}
		case token.GEQ:
			return Val{T: fmt.Sprintf("(str.<= %s %s)", b.T, a.T), S: SBool}
		}
		g.unsup("string op %s", op)
	}
	if isFloat(ta) {
		m := map[token.Token]string{token.LSS: "fp.lt", token.LEQ: "fp.leq", token.GTR: "fp.gt", token.GEQ: "fp.geq"}
		if f, ok := m[op]; ok {
			return Val{T: fmt.Sprintf("(%s %s %s)", f, a.T, b.T), S: SBool}
		}
		ar := map[token.Token]string{token.ADD: "fp.add RNE", token.SUB: "fp.sub RNE", token.MUL: "fp.mul RNE", token.QUO: "fp.div RNE"}
		if f, ok := ar[op]; ok {
			return Val{T: fmt.Sprintf("(%s %s %s)", f, a.T, b.T), S: a.S}
		}
		g.unsup("float op %s", op)
	}
	if isBool(ta) {
		switch op {
		case token.AND, token.LAND:
			return Val{T: and(a.T, b.T), S: SBool}
		case token.OR, token.LOR:
			return Val{T: or(a.T, b.T), S: SBool}
		}
	}
	ii, ok := basicIntInfo(ta)
	if !ok {
		g.unsup("binop %s on %s", op, ta)
	}
	if c.mathInts {
		return g.binopMath(op, a, b, ta, tb, ii, in)
	}
	sg := ii.signed
	pick := func(s, u string) string {
		if sg {
			return s
		}
		return u
	}
	switch op {
	case token.ADD:
		return Val{T: g.bv("bvadd", a.T, b.T), S: a.S}
	case token.SUB:
		return Val{T: g.bv("bvsub", a.T, b.T), S: a.S}
	case token.MUL:
		return Val{T: g.bv("bvmul", a.T, b.T), S: a.S}
	case token.QUO:
		if in != nil {
			g.safe("div", in, not(eq(b.T, c.intLit64(0, ii.width))), g.posText(in))
		}
		return Val{T: g.bv(pick("bvsdiv", "bvudiv"), a.T, b.T), S: a.S}
	case token.REM:
		if in != nil {
			g.safe("div", in, not(eq(b.T, c.intLit64(0, ii.width))), g.posText(in))
		}
		return Val{T: g.bv(pick("bvsrem", "bvurem"), a.T, b.T), S: a.S}
	case token.AND:
		return Val{T: g.bv("bvand", a.T, b.T), S: a.S}
	case token.OR:
		return Val{T: g.bv("bvor", a.T, b.T), S: a.S}
	case token.XOR:
		return Val{T: g.bv("bvxor", a.T, b.T), S: a.S}
	case token.AND_NOT:
		return Val{T: g.bv("bvand", a.T, "(bvnot "+b.T+")"), S: a.S}
	case token.SHL, token.SHR:
		return Val{T: g.shift(op, a, b, ii, tb, in), S: a.S}
	case token.LSS:
		return Val{T: g.bv(pick("bvslt", "bvult"), a.T, b.T), S: SBool}
	case token.LEQ:
		return Val{T: g.bv(pick("bvsle", "bvule"), a.T, b.T), S: SBool}
	case token.GTR:
		return Val{T: g.bv(pick("bvsgt", "bvugt"), a.T, b.T), S: SBool}
	case token.GEQ:
		return Val{T: g.bv(pick("bvsge", "bvuge"), a.T, b.T), S: SBool}
	}
	g.unsup("binop %s", op)
	return Val{}
}

// valuesEqual is Go's == on values of type t: arrays compare their len elements (the SMT array may differ
// outside that range), structs field by field; everything else is SMT equality.
func (g *FuncGen) valuesEqual(a, b string, t types.Type) string {
	c := g.c
	if t == nil {
		return eq(a, b)
	}
	switch u := types.Unalias(t).Underlying().(type) {
	case *types.Array:
		if u.Len() > 64 {
			return eq(a, b)
		}
		var parts []string
		for i := int64(0); i < u.Len(); i++ {
			idx := c.intLit64(i, 64)
			parts = append(parts, g.valuesEqual(fmt.Sprintf("(select %s %s)", a, idx), fmt.Sprintf("(select %s %s)", b, idx), u.Elem()))
		}
		return and(parts...)
	case *types.Struct:
		if !containsArray(u, 0) {
			return eq(a, b)
		}
		_, name, _ := c.structOf(t)
		c.sortOf(t)
		var parts []string
		for i := 0; i < u.NumFields(); i++ {
			f := u.Field(i)
			sel := func(x string) string { return fmt.Sprintf("(%s!%s %s)", name, fieldName(f), x) }
			parts = append(parts, g.valuesEqual(sel(a), sel(b), f.Type()))
		}
		return and(parts...)
	}
	return eq(a, b)
}

func containsArray(t types.Type, depth int) bool {
	if depth > 6 {
		return false
	}
	switch u := types.Unalias(t).Underlying().(type) {
	case *types.Array:
		return true
	case *types.Struct:
		for i := 0; i < u.NumFields(); i++ {
			if containsArray(u.Field(i).Type(), depth+1) {
				return true
			}
		}
	}
	return false
}

func (g *FuncGen) shift(op token.Token, a, b Val, ii intInfo, tb types.Type, in ssa.Instruction) string {
	c := g.c
	bi, ok := basicIntInfo(tb)
	if !ok {
		bi = intInfo{64, false}
	}
	if bi.signed && in != nil {
		g.safe("shift", in, fmt.Sprintf("(bvsge %s %s)", b.T, c.intLit64(0, bi.width)), g.posText(in))
	}
	sop := "bvshl"
	if op == token.SHR {
		sop = "bvlshr"
		if ii.signed {
			sop = "bvashr"
		}
	}
	var cnt string
	switch {
	case bi.width == ii.width:
		cnt = b.T
		return g.bv(sop, a.T, cnt)
	case bi.width < ii.width:
		cnt = fmt.Sprintf("((_ zero_extend %d) %s)", ii.width-bi.width, b.T)
		return g.bv(sop, a.T, cnt)
	default:
		low := fmt.Sprintf("((_ extract %d 0) %s)", ii.width-1, b.T)
		big := fmt.Sprintf("(bvuge %s %s)", b.T, c.intLit64(int64(ii.width), bi.width))
		over := c.intLit64(0, ii.width)
		if sop == "bvashr" {
			over = g.bv("bvashr", a.T, c.intLit64(int64(ii.width-1), ii.width))
		}
		return ite(big, over, g.bv(sop, a.T, low))
	}
}

func (g *FuncGen) binopMath(op token.Token, a, b Val, ta, tb types.Type, ii intInfo, in ssa.Instruction) Val {
	arith := func(t string) Val {
		// overflow obligation (signed and unsigned alike: the contract is "no wraparound")
		lo, hi := intRange(ii)
		if in != nil && g.safety && g.contract != nil && g.contract.Options["overflow"] != "wrap" {
			g.safe("overflow", in, fmt.Sprintf("(and (<= %s %s) (<= %s %s))", lo, t, t, hi), g.posText(in))
			return Val{T: t, S: SInt}
		}
		return Val{T: g.wrap(t, ta), S: SInt}
	}
	switch op {
	case token.ADD:
		return arith(fmt.Sprintf("(+ %s %s)", a.T, b.T))
	case token.SUB:
		return arith(fmt.Sprintf("(- %s %s)", a.T, b.T))
	case token.MUL:
		return arith(fmt.Sprintf("(* %s %s)", a.T, b.T))
	case token.QUO, token.REM:
		if in != nil {
			g.safe("div", in, not(eq(b.T, "0")), g.posText(in))
		}
		// Go truncates toward zero
		q := fmt.Sprintf("(ite (>= %s 0) (div %s %s) (- (div (- %s) %s)))", a.T, a.T, b.T, a.T, b.T)
		if op == token.QUO {
			return Val{T: q, S: SInt}
		}
		// remainder has the sign of the dividend: |a| mod |b| (SMT mod is non-negative for any non-zero divisor)
		return Val{T: fmt.Sprintf("(ite (>= %s 0) (mod %s %s) (- (mod (- %s) %s)))", a.T, a.T, b.T, a.T, b.T), S: SInt}
	case token.LSS:
		return Val{T: fmt.Sprintf("(< %s %s)", a.T, b.T), S: SBool}
	case token.LEQ:
		return Val{T: fmt.Sprintf("(<= %s %s)", a.T, b.T), S: SBool}
	case token.GTR:
		return Val{T: fmt.Sprintf("(> %s %s)", a.T, b.T), S: SBool}
	case token.GEQ:
		return Val{T: fmt.Sprintf("(>= %s %s)", a.T, b.T), S: SBool}
	case token.SHL, token.SHR, token.AND, token.OR, token.XOR, token.AND_NOT:
		// bit operations have no mathematical-integer model here: the result is an unknown value of the type's
		// range (a sound over-approximation: nothing is learned about it)
		g.c.note("mathint: result of " + op.String() + " left unconstrained (within the type's range)")
		r := g.c.fresh("bitop", SInt)
		lo, hi := intRange(ii)
		g.c.assert(fmt.Sprintf("(and (<= %s %s) (<= %s %s))", lo, r, r, hi))
		return Val{T: r, S: SInt}
	}
	g.unsup("binop %s in mathint mode", op)
	return Val{}
}

func (g *FuncGen) convert(v Val, from, to types.Type) Val {
	c := g.c
	fi, fok := basicIntInfo(from)
	ti, tok := basicIntInfo(to)
	s := c.sortOf(to)
	switch {
	case fok && tok:
		if c.mathInts {
			if ti.width > fi.width && (fi.signed == ti.signed || !fi.signed) {
				return Val{T: v.T, S: s, GT: to}
			}
			if ti == fi {
				return Val{T: v.T, S: s, GT: to}
			}
			return Val{T: g.wrap(v.T, to), S: s, GT: to}
		}
		switch {
		case ti.width == fi.width:
			return Val{T: v.T, S: s, GT: to}
		case ti.width < fi.width:
			return Val{T: fmt.Sprintf("((_ extract %d 0) %s)", ti.width-1, v.T), S: s, GT: to}
		default:
			if fi.signed {
				return Val{T: fmt.Sprintf("((_ sign_extend %d) %s)", ti.width-fi.width, v.T), S: s, GT: to}
			}
			return Val{T: fmt.Sprintf("((_ zero_extend %d) %s)", ti.width-fi.width, v.T), S: s, GT: to}
		}
	case isString(from) && isString(to):
		return Val{T: v.T, S: s, GT: to}
	case isFloat(from) && isFloat(to):
		if c.sortOf(from) == s {
			return Val{T: v.T, S: s, GT: to}
		}
	case v.S == s && v.T != "":
		return Val{T: v.T, S: s, GT: to, P: v.P}
	}
	// string <-> []byte: the text of a byte slice is an (uninterpreted) function of its contents, offset and
	// length - so it changes when the bytes change - and []byte(s) is a fresh array whose text is s
	if isByteSlice(to) && isString(from) && v.T != "" {
		r := g.newRef("bytes")
		ln := g.strLen(v.T)
		sl := fmt.Sprintf("(mk_slice %s %s %s %s)", r, c.intLit64(0, 64), ln, ln)
		cl := c.elemClass(types.Typ[types.Uint8])
		data := c.fresh("bytes_of_string", fmt.Sprintf("(Array %s %s)", c.intSort(64), c.intSort(8)))
		g.heapStore(cl, r, data)
		c.assert(eq(g.bytesText(g.heapOf(g.cur, cl), sl), v.T))
		if g.c.mathInts {
			c.assert(fmt.Sprintf("(<= %s 1099511627776)", ln))
		} else {
			c.assert(g.le64(ln, c.intLit64(1<<40, 64)))
		}
		return Val{T: sl, S: s, GT: to}
	}
	if isString(to) && isByteSlice(from) && v.T != "" {
		cl := c.elemClass(types.Typ[types.Uint8])
		t := g.bytesText(g.heapOf(g.cur, cl), v.T)
		c.assert(eq(g.strLen(t), fmt.Sprintf("(s_len %s)", v.T)))
		return Val{T: t, S: s, GT: to}
	}
	// int->float etc: uninterpreted conversion function (deterministic)
	if v.T != "" {
		fn := "conv_" + sortKey(v.S) + "_to_" + sortKey(s)
		c.decl(fmt.Sprintf("(declare-fun %s (%s) %s)", fn, v.S, s))
		c.note("uninterpreted conversion " + types.TypeString(from, c.qual) + " -> " + types.TypeString(to, c.qual))
		r := Val{T: fmt.Sprintf("(%s %s)", fn, v.T), S: s, GT: to}
		return r
	}
	g.unsup("convert %s -> %s", from, to)
	return Val{}
}

// unboxFacts: for an interface value whose dynamic type is t (under guard), boxing its payload gives the value
// back (boxes of one type are in bijection with the values of the type), and the payload's arrays are junk-free.
func (g *FuncGen) unboxFacts(iface string, t types.Type, guard string) {
	c := g.c
	s := c.sortOf(t)
	if s == SRef || s == SInt && isPointerLike(t) {
		return
	}
	key := "unboxfacts:" + iface + ":" + s
	if c.declared[key] || strings.Contains(iface, "q_") {
		return
	}
	c.declared[key] = true
	k := sortKey(s)
	c.global(func() {
		ub := c.unbox(s, fmt.Sprintf("(i_val %s)", iface))
		c.assert(implies(guard, eq(fmt.Sprintf("(box_%s %s)", k, ub), fmt.Sprintf("(i_val %s)", iface))))
		if jf := g.junkFree(ub, t, 0); jf != "true" {
			c.assert(implies(guard, jf))
		}
	})
}

func isPointerLike(t types.Type) bool {
	switch types.Unalias(t).Underlying().(type) {
	case *types.Pointer, *types.Map, *types.Chan, *types.Signature:
		return true
	}
	return false
}

// assumeJunkFree: Go arrays have no elements outside 0..len-1; SMT arrays do.  Values that are boxed into
// interfaces (where Go's == compares them as a whole) are assumed to hold the zero value at every index
// outside the Go array - unobservable by the program, and what makes SMT equality coincide with Go's ==.
func (g *FuncGen) assumeJunkFree(term string, t types.Type) {
	if strings.Contains(term, "q_") {
		return
	}
	if jf := g.junkFree(term, t, 0); jf != "true" {
		g.c.assert(implies(g.curGuardOrTrue(), jf))
	}
}

func (g *FuncGen) junkFree(term string, t types.Type, depth int) string {
	c := g.c
	if depth > 3 {
		return "true"
	}
	switch u := types.Unalias(t).Underlying().(type) {
	case *types.Array:
		if isStructType(u.Elem()) || isArrayType(u.Elem()) {
			return "true"
		}
		c.useQuant = true
		i64 := c.intSort(64)
		out := not(g.inRange("qj", c.intLit64(u.Len(), 64)))
		return fmt.Sprintf("(forall ((qj %s)) (=> %s (= (select %s qj) %s)))", i64, out, term, c.zero(u.Elem()))
	case *types.Struct:
		_, name, ok := c.structOf(t)
		if !ok {
			return "true"
		}
		var parts []string
		for i := 0; i < u.NumFields(); i++ {
			f := u.Field(i)
			parts = append(parts, g.junkFree(fmt.Sprintf("(%s!%s %s)", name, fieldName(f), term), f.Type(), depth+1))
		}
		return and(parts...)
	}
	return "true"
}

func isByteSlice(t types.Type) bool {
	sl, ok := types.Unalias(t).Underlying().(*types.Slice)
	if !ok {
		return false
	}
	b, ok := types.Unalias(sl.Elem()).Underlying().(*types.Basic)
	return ok && b.Kind() == types.Uint8
}

// bytesText: the text (Go string) spelled by byte slice sl in byte heap `heap`.
func (g *FuncGen) bytesText(heap, sl string) string {
	c := g.c
	i64 := c.intSort(64)
	c.decl(fmt.Sprintf("(declare-fun bytes_text ((Array %s %s) %s %s) String)", i64, c.intSort(8), i64, i64))
	return fmt.Sprintf("(bytes_text (select %s (s_arr %s)) (s_off %s) (s_len %s))", heap, sl, sl, sl)
}

func (g *FuncGen) typeAssert(x *ssa.TypeAssert) {
	c := g.c
	v := g.value(x.X)
	at := x.AssertedType
	var okT, valT string
	var vs Sort
	if _, isIface := at.Underlying().(*types.Interface); isIface {
		// interface-to-interface: succeeds iff dynamic type implements; unknown => fresh bool, but nil fails
		okc := c.fresh("implements", SBool)
		c.assert(implies(eq(fmt.Sprintf("(i_typ %s)", v.T), "0"), not(okc)))
		okT, valT, vs = okc, v.T, SIface
	} else {
		vs = c.sortOf(at)
		okT = eq(fmt.Sprintf("(i_typ %s)", v.T), fmt.Sprint(c.typeTag(at)))
		valT = c.unbox(vs, fmt.Sprintf("(i_val %s)", v.T))
		g.unboxFacts(v.T, at, okT)
	}
	if x.CommaOk {
		val := Val{T: ite(okT, valT, c.zero(at)), S: vs, GT: at}
		g.set(x, Val{Tup: []Val{val, {T: okT, S: SBool, GT: types.Typ[types.Bool]}}})
		return
	}
	g.safe("type-assert", x, okT, exprText(x.X))
	g.define(x, valT)
}

// ---------- slices ----------

func (g *FuncGen) sliceOp(x *ssa.Slice) {
	c := g.c
	base := g.value(x.X)
	z := c.intLit64(0, 64)
	get := func(v ssa.Value, def string) string {
		if v == nil {
			return def
		}
		return g.toInt64(g.value(v), v.Type())
	}
	switch t := x.X.Type().Underlying().(type) {
	case *types.Slice:
		lo := get(x.Low, z)
		hi := get(x.High, fmt.Sprintf("(s_len %s)", base.T))
		capT := fmt.Sprintf("(s_cap %s)", base.T)
		mx := get(x.Max, capT)
		g.safe("slice-bounds", x, and(g.le64(z, lo), g.le64(lo, hi), g.le64(hi, mx), g.le64(mx, capT)), exprText(x.X))
		r := fmt.Sprintf("(mk_slice (s_arr %s) %s %s %s)", base.T, g.add64(fmt.Sprintf("(s_off %s)", base.T), lo), g.sub64(hi, lo), g.sub64(mx, lo))
		g.define(x, r)
	case *types.Pointer: // *array
		at := t.Elem().Underlying().(*types.Array)
		n := c.intLit64(at.Len(), 64)
		lo := get(x.Low, z)
		hi := get(x.High, n)
		mx := get(x.Max, n)
		g.nonNil(base, x, exprText(x.X))
		g.safe("slice-bounds", x, and(g.le64(z, lo), g.le64(lo, hi), g.le64(hi, mx), g.le64(mx, n)), exprText(x.X))
		if !isStructType(at.Elem()) {
			c.elemClass(at.Elem())
		}
		r := fmt.Sprintf("(mk_slice %s %s %s %s)", base.T, lo, g.sub64(hi, lo), g.sub64(mx, lo))
		g.define(x, r)
	case *types.Basic: // string
		if !c.mathInts {
			g.unsup("string slicing in bitvector mode (use option mathint)")
		}
		lo := get(x.Low, "0")
		hi := get(x.High, fmt.Sprintf("(str.len %s)", base.T))
		g.safe("slice-bounds", x, and(g.le64("0", lo), g.le64(lo, hi), g.le64(hi, fmt.Sprintf("(str.len %s)", base.T))), exprText(x.X))
		g.define(x, fmt.Sprintf("(str.substr %s %s (- %s %s))", base.T, lo, hi, lo))
	default:
		g.unsup("slice of %s", x.X.Type())
	}
}

func (g *FuncGen) makeSlice(x *ssa.MakeSlice) {
	c := g.c
	t := x.Type().Underlying().(*types.Slice)
	ln := g.toInt64(g.value(x.Len), x.Len.Type())
	cp := g.toInt64(g.value(x.Cap), x.Cap.Type())
	z := c.intLit64(0, 64)
	g.safe("makeslice", x, and(g.le64(z, ln), g.le64(ln, cp)), g.posText(x))
	r := g.newRef(x.Name())
	if !isStructType(t.Elem()) {
		cl := c.elemClass(t.Elem())
		g.heapStore(cl, r, fmt.Sprintf("((as const (Array %s %s)) %s)", c.intSort(64), c.sortOf(t.Elem()), c.zero(t.Elem())))
	} else {
		g.c.note("make([]struct) contents not zero-initialised in the model (fields unconstrained)")
	}
	g.define(x, fmt.Sprintf("(mk_slice %s %s %s %s)", r, z, ln, cp))
}

// ---------- maps ----------

func (g *FuncGen) mapType(t types.Type) *types.Map {
	m, ok := types.Unalias(t).Underlying().(*types.Map)
	if !ok {
		g.unsup("not a map: %s", t)
	}
	return m
}

func (g *FuncGen) cardFn(m *types.Map) string {
	c := g.c
	k := c.sortOf(m.Key())
	fn := "card_" + sortKey(k)
	c.decl(fmt.Sprintf("(declare-fun %s ((Array %s Bool)) %s)", fn, k, c.intSort(64)))
	return fn
}

func (g *FuncGen) makeMap(x *ssa.MakeMap) {
	c := g.c
	m := g.mapType(x.Type())
	r := g.newRef(x.Name())
	if g.nonEsc[x] {
		g.localRefs = append(g.localRefs, r)
		g.ownRefs = append(g.ownRefs, r)
	}
	k := c.sortOf(m.Key())
	empty := fmt.Sprintf("((as const (Array %s Bool)) false)", k)
	g.heapStore(c.mapDomClass(m), r, empty)
	c.mapValClass(m)
	c.assert(eq(fmt.Sprintf("(%s %s)", g.cardFn(m), empty), c.intLit64(0, 64)))
	g.set(x, Val{T: r, S: SInt, GT: x.Type()})
}

func (g *FuncGen) mapDom(st *State, m *types.Map, ref string) string {
	return fmt.Sprintf("(select %s %s)", g.heapOf(st, g.c.mapDomClass(m)), ref)
}
func (g *FuncGen) mapVals(st *State, m *types.Map, ref string) string {
	return fmt.Sprintf("(select %s %s)", g.heapOf(st, g.c.mapValClass(m)), ref)
}

func (g *FuncGen) mapUpdate(x *ssa.MapUpdate) {
	m := g.mapType(x.Map.Type())
	mv := g.value(x.Map)
	k := g.value(x.Key)
	v := g.value(x.Value)
	g.nonNil(mv, x, exprText(x.Map))
	g.mapStore(m, mv.T, k.T, v.T)
}

func (g *FuncGen) mapStore(m *types.Map, ref, k, v string) {
	c := g.c
	oldDom := g.mapDom(g.cur, m, ref)
	newDom := fmt.Sprintf("(store %s %s true)", oldDom, k)
	card := g.cardFn(m)
	one := c.intLit64(1, 64)
	c.assert(implies(g.bcond[g.curBlock], eq(fmt.Sprintf("(%s %s)", card, newDom),
		ite(fmt.Sprintf("(select %s %s)", oldDom, k), fmt.Sprintf("(%s %s)", card, oldDom), g.add64(fmt.Sprintf("(%s %s)", card, oldDom), one)))))
	oldVals := g.mapVals(g.cur, m, ref)
	g.heapStore(c.mapDomClass(m), ref, newDom)
	g.heapStore(c.mapValClass(m), ref, fmt.Sprintf("(store %s %s %s)", oldVals, k, v))
}

func (g *FuncGen) mapDelete(m *types.Map, ref, k string) {
	c := g.c
	oldDom := g.mapDom(g.cur, m, ref)
	newDom := fmt.Sprintf("(store %s %s false)", oldDom, k)
	card := g.cardFn(m)
	one := c.intLit64(1, 64)
	c.assert(implies(g.bcond[g.curBlock], eq(fmt.Sprintf("(%s %s)", card, newDom),
		ite(fmt.Sprintf("(select %s %s)", oldDom, k), g.sub64(fmt.Sprintf("(%s %s)", card, oldDom), one), fmt.Sprintf("(%s %s)", card, oldDom)))))
	c.assert(implies(g.bcond[g.curBlock], g.le64(c.intLit64(0, 64), fmt.Sprintf("(%s %s)", card, newDom))))
	g.heapStore(c.mapDomClass(m), ref, newDom)
}

func (g *FuncGen) lookup(x *ssa.Lookup) {
	c := g.c
	if isString(x.X.Type()) {
		base := g.value(x.X)
		idx := g.toInt64(g.value(x.Index), x.Index.Type())
		g.safe("bounds", x, g.inRange(idx, g.strLen(base.T)), exprText(x.X))
		g.set(x, Val{T: g.strByte(base.T, idx), S: c.intSort(8), GT: types.Typ[types.Uint8]})
		return
	}
	m := g.mapType(x.X.Type())
	mv := g.value(x.X)
	k := g.value(x.Index)
	in := fmt.Sprintf("(select %s %s)", g.mapDom(g.cur, m, mv.T), k.T)
	// nil map: reads as empty
	in = and(not(eq(mv.T, "0")), in)
	val := ite(in, fmt.Sprintf("(select %s %s)", g.mapVals(g.cur, m, mv.T), k.T), c.zero(m.Elem()))
	vs := c.sortOf(m.Elem())
	if x.CommaOk {
		vn := c.fresh(x.Name()+"_v", vs)
		c.assert(eq(vn, val))
		on := c.fresh(x.Name()+"_ok", SBool)
		c.assert(eq(on, in))
		vv := Val{T: vn, S: vs, GT: m.Elem()}
		g.assumeWellTyped(vv, m.Elem(), g.cur)
		g.set(x, Val{Tup: []Val{vv, {T: on, S: SBool, GT: types.Typ[types.Bool]}}})
		return
	}
	r := g.define(x, val)
	g.assumeWellTyped(r, m.Elem(), g.cur)
}

// range over map / string: iterator is modelled by Next returning an arbitrary present key.
type rangeState struct {
	x *ssa.Range
}

// visitedKey: name of the ghost "keys already yielded" set of a map range.
func visitedKey(x *ssa.Range) string { return "visited#" + x.Name() }

func (g *FuncGen) rangeInit(x *ssa.Range) {
	g.set(x, Val{T: "0", S: SInt})
	if m, ok := types.Unalias(x.X.Type()).Underlying().(*types.Map); ok {
		ks := g.c.sortOf(m.Key())
		srt := fmt.Sprintf("(Array %s Bool)", ks)
		if g.localGhostSorts == nil {
			g.localGhostSorts = map[string]Sort{}
		}
		g.localGhostSorts[visitedKey(x)] = srt
		g.cur.ghost[visitedKey(x)] = fmt.Sprintf("((as const %s) false)", srt)
	}
}

// loopAddsKeys: does the loop that iterates rng contain an insertion into a map of the same type?
func (g *FuncGen) loopAddsKeys(rng *ssa.Range, blk *ssa.BasicBlock) bool {
	li := g.loops[blk]
	if li == nil {
		for _, l := range g.loops {
			if l.blocks[blk] && (li == nil || len(l.blocks) < len(li.blocks)) {
				li = l
			}
		}
	}
	if li == nil {
		return true
	}
	for b := range li.blocks {
		for _, in := range b.Instrs {
			switch y := in.(type) {
			case *ssa.MapUpdate:
				if types.Identical(y.Map.Type(), rng.X.Type()) {
					// m[k] = v where m is the ranged-over map and k the key this very range just yielded overwrites
					// an existing entry: no key is inserted
					if y.Map == rng.X {
						if ex, ok := y.Key.(*ssa.Extract); ok && ex.Index == 1 {
							if nx, ok := ex.Tuple.(*ssa.Next); ok && nx.Iter == ssa.Value(rng) {
								continue
							}
						}
					}
					return true
				}
			case *ssa.Call:
				if _, isB := y.Call.Value.(*ssa.Builtin); isB {
					continue
				}
				cl, all := g.callWrites(&y.Call)
				if all {
					return true
				}
				mt := types.Unalias(rng.X.Type()).Underlying().(*types.Map)
				for _, c := range cl {
					if c == g.c.mapDomClass(mt) {
						return true
					}
				}
			}
		}
	}
	return false
}

func (g *FuncGen) next(x *ssa.Next) {
	c := g.c
	rng := x.Iter.(*ssa.Range)
	if x.IsString {
		g.unsup("range over string")
	}
	m := g.mapType(rng.X.Type())
	mv := g.value(rng.X)
	ok := c.fresh(x.Name()+"_ok", SBool)
	k := g.freshOfType(x.Name()+"_k", m.Key())
	vs := c.sortOf(m.Elem())
	v := c.fresh(x.Name()+"_v", vs)
	dom := g.mapDom(g.cur, m, mv.T)
	vk := visitedKey(rng)
	vis, haveVis := g.cur.ghost[vk]
	guard := g.bcond[g.curBlock]
	yielded := and(not(eq(mv.T, "0")), fmt.Sprintf("(select %s %s)", dom, k.T), eq(v, fmt.Sprintf("(select %s %s)", g.mapVals(g.cur, m, mv.T), k.T)))
	if haveVis {
		// each key is yielded at most once
		yielded = and(yielded, not(fmt.Sprintf("(select %s %s)", vis, k.T)))
	}
	c.assert(implies(and(guard, ok), yielded))
	if haveVis {
		ks := c.sortOf(m.Key())
		nv := c.fresh("visited", fmt.Sprintf("(Array %s Bool)", ks))
		c.assert(eq(nv, ite(ok, fmt.Sprintf("(store %s %s true)", vis, k.T), vis)))
		g.cur.ghost[vk] = nv
		if !g.loopAddsKeys(rng, x.Block()) {
			// iteration ends only when every key still present has been yielded (no key is inserted
			// into a map of this type inside the loop, so Go's "may or may not be produced" case cannot arise)
			c.useQuant = true
			c.assert(implies(and(guard, not(ok)), fmt.Sprintf("(forall ((qk %s)) (=> %s (select %s qk)))", ks,
				and(not(eq(mv.T, "0")), fmt.Sprintf("(select %s qk)", dom)), vis)))
			c.note("map iteration: every key is yielded at most once, and when the range ends every key present has been yielded (Go spec; holds because the loop inserts no key into a map of that type)")
		} else {
			c.note("map iteration with insertions in the loop: completeness of iteration is not assumed")
		}
	}
	vv := Val{T: v, S: vs, GT: m.Elem()}
	g.assumeWellTyped(vv, m.Elem(), g.cur)
	g.set(x, Val{Tup: []Val{{T: ok, S: SBool, GT: types.Typ[types.Bool]}, k, vv}})
}

// ---------- returns ----------

func (g *FuncGen) ret(x *ssa.Return) {
	g.retCount++
	var results []Val
	for _, r := range x.Results {
		results = append(results, g.value(r))
	}
	tag := ""
	if g.countReturns() > 1 {
		tag = fmt.Sprintf("@ret%d", g.retCount)
	}
	guard := g.bcond[x.Block()]
	if g.contract == nil {
		return
	}
	env := g.envAt(g.cur, g.entry, results)
	for i, en := range g.contract.Ensures {
		t := g.trBool(env, en.E, "")
		g.postParts[i] = append(g.postParts[i], implies(guard, t))
	}
	if g.contract.AssignsSet {
		g.checkAssigns(x, guard, tag)
	}
	g.retGuards = append(g.retGuards, guard)
}

// finishPosts emits one obligation per ensures clause, covering every return.
func (g *FuncGen) finishPosts() {
	if g.contract == nil {
		return
	}
	// option split-post i,j: case-split those postconditions on the counter of the function's split loop
	// (value at the last visit of the loop head, or "loop not entered"); exhaustive by the loop invariant.
	splitPost := map[int]bool{}
	for _, w := range strings.Fields(strings.ReplaceAll(g.contract.Options["split-post"], ",", " ")) {
		var n int
		if _, err := fmt.Sscanf(w, "%d", &n); err == nil {
			splitPost[n] = true
		}
	}
	var sli *loopInfo
	for _, li := range g.loops {
		if li.spec != nil && li.spec.SplitVar != "" && li.headState != nil {
			if sli != nil {
				sli = nil
				splitPost = map[int]bool{}
				break
			}
			sli = li
		}
	}
	exhaustiveDone := false
	for i, en := range g.contract.Ensures {
		name := fmt.Sprintf("%s/post#%d", g.fnName, i+1)
		goal := and(g.postParts[i]...)
		if sli == nil || !splitPost[i+1] {
			g.addObl(&Obligation{Name: name, Guard: "true", Goal: goal, Kind: "postcondition", Text: en.Text, Clause: en.E})
			continue
		}
		henv := g.envAtLoopHead(sli, nil, sli.headState)
		sv := g.tr(henv, &EIdent{sli.spec.SplitVar})
		bh := g.bcond[sli.header]
		var cases []string
		for k := sli.spec.SplitLo; k <= sli.spec.SplitHi; k++ {
			cs := and(bh, eq(sv.T, g.litFor(sv, int64(k))))
			cases = append(cases, cs)
			g.addObl(&Obligation{Name: fmt.Sprintf("%s[%s=%d]", name, sli.spec.SplitVar, k), Guard: "true", Goal: goal, Extra: []string{cs}, Kind: "postcondition", Text: en.Text, Clause: en.E})
		}
		g.addObl(&Obligation{Name: name + "[loop-not-entered]", Guard: "true", Goal: goal, Extra: []string{not(bh)}, Kind: "postcondition", Text: en.Text, Clause: en.E})
		// remaining values of the counter (exhaustive by construction)
		g.addObl(&Obligation{Name: name + "[other]", Guard: "true", Goal: goal, Extra: []string{bh, not(or(cases...))}, Kind: "postcondition", Text: en.Text, Clause: en.E})
		_ = exhaustiveDone
	}
	if len(g.assignParts) > 0 {
		g.addObl(&Obligation{Name: g.fnName + "/assigns", Guard: "true", Goal: and(g.assignParts...), Kind: "frame", Text: "only the locations in the assigns clause change"})
	}
	// cover: some return is reachable under the precondition
	if len(g.retGuards) > 0 {
		g.addObl(&Obligation{Name: g.fnName + "/cover-return", Guard: or(g.retGuards...), Goal: "false", ExpectSat: true, Kind: "vacuity", Text: "some return is reachable"})
	}
}

func (g *FuncGen) countReturns() int {
	n := 0
	for _, b := range g.fn.Blocks {
		if b == g.fn.Recover {
			continue
		}
		if len(b.Instrs) > 0 {
			if _, ok := b.Instrs[len(b.Instrs)-1].(*ssa.Return); ok {
				n++
			}
		}
	}
	return n
}
