package main

// Calls: builtins, callee contracts, assumed external contracts, havoc abstraction, frames.

import (
	"fmt"
	"go/constant"
	"go/token"
	"go/types"
	"os"
	"regexp"
	"sort"
	"strconv"
	"strings"

	"golang.org/x/tools/go/ssa"
)

func (g *FuncGen) call(x *ssa.Call) {
	r := g.callCommon(&x.Call, x, x)
	if r != nil {
		g.vals[x] = *r
	}
}

// callCommon handles a call; res is the value-producing instruction (nil for defer/go).
func (g *FuncGen) callCommon(cc *ssa.CallCommon, res ssa.Value, in ssa.Instruction) *Val {
	if b, ok := cc.Value.(*ssa.Builtin); ok {
		return g.builtin(b, cc, res, in)
	}
	var args []Val
	for _, a := range cc.Args {
		args = append(args, g.value(a))
	}
	if cc.IsInvoke() {
		recv := g.value(cc.Value)
		name := fmt.Sprintf("(%s).%s", types.TypeString(types.Unalias(cc.Value.Type()), nil), cc.Method.Name())
		if ct := g.prog.Contracts[name]; ct != nil {
			return g.applyContract(ct, cc.Method.Type().(*types.Signature), append([]Val{recv}, args...), true, res, in, name)
		}
		pre := g.cur.clone()
		all := append([]Val{recv}, args...)
		rv := g.havocCall(name, cc, all, res, in)
		g.ghostState = pre
		g.ghostAtUncontracted(name, all, rv)
		g.ghostState = nil
		return rv
	}
	callee := cc.StaticCallee()
	if callee == nil {
		// closure / function value call
		fv := g.value(cc.Value)
		if fv.Clo != nil {
			if fn, ok := fv.Clo.Fn.(*ssa.Function); ok {
				if ct := g.prog.contractFor(fn); ct != nil {
					return g.applyContract(ct, fn.Signature, args, false, res, in, fn.String())
				}
			}
		}
		if sname, fname, ok := g.pureFuncFieldOf(cc.Value); ok && res != nil {
			// call through a field declared `ghost purefunc`: an uninterpreted function of the function value and
			// the arguments; no effect on the state
			g.c.note("assumed: function values stored in field " + fname + " of " + sname + " are pure and deterministic (ghost purefunc)")
			v := g.define(res, g.pureFieldApp(sname, fname, fv, args, res.Type()))
			return &v
		}
		if _, isParam := cc.Value.(*ssa.Parameter); isParam && g.contract != nil && g.contract.Options["readonly-callbacks"] == "true" {
			// option readonly-callbacks: the callback parameters of this function do not modify state reachable
			// from the function's arguments (an assumption about the callers, listed in evidence); results arbitrary
			g.c.note("assumed: callback parameters do not modify the data structure (option readonly-callbacks)")
			name := "callback " + cc.Value.Name()
			var rv *Val
			if res != nil {
				if t, ok := res.Type().(*types.Tuple); ok && t.Len() == 0 {
					rv = &Val{Tup: []Val{}}
				} else {
					v := g.freshFor(res)
					rv = &v
				}
			}
			g.ghostState = g.cur
			g.ghostAtUncontracted(name, args, rv)
			g.ghostState = nil
			return rv
		}
		dname := "dynamic call " + exprText(cc.Value)
		if n := g.debugNameOf(cc.Value); n != "" {
			dname = "dynamic call " + n // the source-level name of the function variable, so that ghost hooks can name it
		} else if ld, ok := cc.Value.(*ssa.UnOp); ok && ld.Op == token.MUL {
			if fa, ok := ld.X.(*ssa.FieldAddr); ok {
				if st, ok := derefType(fa.X.Type()).Underlying().(*types.Struct); ok {
					dname = "dynamic call " + st.Field(fa.Field).Name() // a function-valued struct field
				}
			}
		}
		pre := g.cur.clone()
		rv := g.havocCall(dname, cc, args, res, in)
		g.ghostState = pre
		g.ghostAtUncontracted(dname, args, rv)
		g.ghostState = nil
		return rv
	}
	name := callee.String()
	if o := callee.Origin(); o != nil {
		name = o.String()
	}
	ct := g.prog.Contracts[name]
	if ct == nil && strings.Contains(name, "[") {
		ct = g.prog.Contracts[stripTypeParams(name)] // generic functions/methods are named without type parameters
	}
	if ct != nil {
		return g.applyContract(ct, callee.Signature, args, callee.Signature.Recv() != nil, res, in, name)
	}
	var rv *Val
	pre := g.cur.clone()
	if h := g.knownNoEffect(name); h {
		rv = g.pureUnknown(name, cc, res)
	} else if os.Getenv("GOVC_NOPURE") == "" && g.inferredPure(callee) {
		// no contract, but the body provably writes nothing its caller can see (pure.go): state untouched,
		// results arbitrary
		g.c.note("inferred write-pure (no store outside its own locals, only pure callees): " + name)
		nh := g.c.fresh("hwm", SInt) // it may allocate (and return) new objects
		g.c.assert(fmt.Sprintf("(<= %s %s)", g.cur.hwm, nh))
		g.cur.hwm = nh
		rv = g.pureUnknown(name, cc, res)
	} else {
		rv = g.havocCall(name, cc, args, res, in)
	}
	// ghost statements at a call without a contract are evaluated in the state just before the call
	// (the call itself may havoc the heap); its results are still visible as res*
	g.ghostState = pre
	g.ghostAtUncontracted(name, args, rv)
	g.ghostState = nil
	return rv
}

// debugNameOf: the source-level variable name bound to SSA value v (from the function's debug references).
func (g *FuncGen) debugNameOf(v ssa.Value) string {
	var names []string
	for n, bs := range g.names {
		for _, b := range bs {
			if b.val == v && !b.isAddr {
				names = append(names, n)
			}
		}
	}
	if len(names) == 0 {
		return ""
	}
	sort.Strings(names)
	return names[0]
}

// pureFuncFieldOf: v is a load of a struct field that a contract file declares `ghost purefunc`.
func (g *FuncGen) pureFuncFieldOf(v ssa.Value) (string, string, bool) {
	ld, ok := v.(*ssa.UnOp)
	if !ok || ld.Op != token.MUL {
		return "", "", false
	}
	fa, ok := ld.X.(*ssa.FieldAddr)
	if !ok {
		return "", "", false
	}
	st, sname, ok := g.c.structOf(derefType(fa.X.Type()))
	if !ok {
		return "", "", false
	}
	fname := st.Field(fa.Field).Name()
	return sname, fname, g.isPureFuncField(sname, fname)
}

func (g *FuncGen) isPureFuncField(sname, fname string) bool {
	want := strings.TrimPrefix(sname, "S_") // pkgname.Type
	for key, m := range g.prog.GhostFields {
		if _, ok := m["purefunc:"+fname]; !ok {
			continue
		}
		k := key
		if i := strings.LastIndex(k, "/"); i >= 0 {
			k = k[i+1:]
		}
		if sanitize(k) == want {
			return true
		}
	}
	return false
}

// pureFieldApp: application term of the uninterpreted function standing for calls through a pure function field.
func (g *FuncGen) pureFieldApp(sname, fname string, fv Val, args []Val, resT types.Type) string {
	c := g.c
	rs := c.sortOf(resT)
	sorts := []string{SInt}
	ts := []string{fv.T}
	for _, a := range args {
		sorts = append(sorts, a.S)
		ts = append(ts, a.T)
	}
	fn := "pfcall_" + sanitize(sname) + "_" + sanitize(fname)
	c.decl(fmt.Sprintf("(declare-fun %s (%s) %s)", fn, strings.Join(sorts, " "), rs))
	return fmt.Sprintf("(%s %s)", fn, strings.Join(ts, " "))
}

// ghostAtUncontracted runs `ghost at call` statements for a callee that has no contract: the arguments are
// visible as arg0, arg1, ... and the results as res / res0, res1, ...
func (g *FuncGen) ghostAtUncontracted(name string, args []Val, rv *Val) {
	if g.contract == nil || len(g.contract.Ghosts) == 0 {
		return
	}
	matched := false
	for _, ga := range g.contract.Ghosts {
		if strings.HasSuffix(name, ga.Callee) {
			matched = true
		}
	}
	if !matched {
		return
	}
	g.callOrd[name]++
	vars := map[string]Val{}
	for i, a := range args {
		vars[fmt.Sprintf("arg%d", i)] = a
	}
	var results []Val
	if rv != nil {
		if rv.Tup != nil {
			results = rv.Tup
		} else {
			results = []Val{*rv}
		}
	}
	for i, r := range results {
		vars[fmt.Sprintf("res%d", i)] = r
		if len(results) == 1 {
			vars["res"] = r
		}
	}
	env := &Env{g: g, vars: vars, cur: g.cur, old: g.cur, pkg: g.pkg}
	g.runGhostAt(name, g.callOrd[name], env, results)
}

// knownNoEffect: calls that do not touch modelled program state (logging, metrics, fmt to strings).
func (g *FuncGen) knownNoEffect(name string) bool {
	for _, p := range noEffectPrefixes {
		if strings.HasPrefix(name, p) {
			g.c.note("assumed effect-free: " + p + "*")
			return true
		}
	}
	return false
}

var noEffectPrefixes = []string{
	"github.com/sirupsen/logrus.", "(*github.com/sirupsen/logrus.Entry).", "(*github.com/sirupsen/logrus.Logger).",
	"(github.com/sirupsen/logrus.Level).", "(github.com/sirupsen/logrus.Fields).",
	"fmt.Sprintf", "fmt.Sprint", "fmt.Errorf", "errors.New", "fmt.Sprintln",
	"(*sync.Mutex).", "(*sync.RWMutex).", "(*sync.WaitGroup).",
	"(github.com/prometheus/client_golang/prometheus.", "(*github.com/prometheus/client_golang/prometheus.",
	"github.com/projectcalico/calico/libcalico-go/lib/logutils.", "(*github.com/projectcalico/calico/libcalico-go/lib/logutils.",
	"time.Now", "time.Since", "(time.Time).", "(time.Duration).",
	"strings.", "strconv.", "(*strings.Builder).",
	// reflection: observers only ((reflect.Value).Set* are NOT in this list and havoc the heap)
	"reflect.ValueOf", "reflect.TypeOf", "reflect.TypeFor", "(reflect.Value).Elem", "(reflect.Value).FieldByName", "(reflect.Value).Field",
	"(reflect.Value).Interface", "(reflect.Value).Kind", "(reflect.Value).IsNil", "(reflect.Value).IsValid", "(reflect.Value).Type",
	"(*reflect.rtype).", "(reflect.StructTag).",
}

// pureUnknown: result is a fresh value (non-nil for error constructors), state untouched.
func (g *FuncGen) pureUnknown(name string, cc *ssa.CallCommon, res ssa.Value) *Val {
	if res == nil {
		return nil
	}
	if _, ok := res.Type().(*types.Tuple); ok && res.Type().(*types.Tuple).Len() == 0 {
		v := Val{Tup: []Val{}}
		return &v
	}
	if name == "fmt.Sprintf" {
		if t, ok := g.sprintfOfStrings(cc); ok {
			g.c.note("fmt.Sprintf with a constant format of %s/%v verbs over string arguments is modelled as concatenation")
			v := g.define(res, t)
			return &v
		}
	}
	v := g.freshFor(res)
	g.resultNotOwn(v)
	switch name {
	case "errors.New", "fmt.Errorf":
		g.c.assert(implies(g.bcond[g.curBlock], not(eq(fmt.Sprintf("(i_typ %s)", v.T), "0"))))
	}
	if strings.HasPrefix(name, "github.com/sirupsen/logrus.With") || strings.HasPrefix(name, "(*github.com/sirupsen/logrus.Entry).With") {
		g.c.assert(implies(g.bcond[g.curBlock], not(eq(v.T, "0"))))
	}
	return &v
}

// sprintfOfStrings recognises fmt.Sprintf(<const format with only %s/%v verbs>, <string args>...) and returns
// the concatenation term.  The variadic slice is the compiler-built `new [k]interface{}` with one store per slot.
func (g *FuncGen) sprintfOfStrings(cc *ssa.CallCommon) (string, bool) {
	if len(cc.Args) != 2 {
		return "", false
	}
	fc, ok := cc.Args[0].(*ssa.Const)
	if !ok || fc.Value == nil || fc.Value.Kind() != constant.String {
		return "", false
	}
	format := constant.StringVal(fc.Value)
	sl, ok := cc.Args[1].(*ssa.Slice)
	if !ok {
		return "", false
	}
	al, ok := sl.X.(*ssa.Alloc)
	if !ok || al.Referrers() == nil {
		return "", false
	}
	elems := map[int64]ssa.Value{}
	for _, r := range *al.Referrers() {
		ia, ok := r.(*ssa.IndexAddr)
		if !ok {
			continue
		}
		ic, ok := ia.Index.(*ssa.Const)
		if !ok || ia.Referrers() == nil {
			return "", false
		}
		for _, r2 := range *ia.Referrers() {
			if st, ok := r2.(*ssa.Store); ok && st.Addr == ia {
				mi, ok := st.Val.(*ssa.MakeInterface)
				if !ok || !isString(mi.X.Type()) {
					return "", false
				}
				elems[ic.Int64()] = mi.X
			}
		}
	}
	var parts []string
	argi := int64(0)
	lit := ""
	flush := func() {
		if lit != "" {
			parts = append(parts, smtString(lit))
			lit = ""
		}
	}
	for i := 0; i < len(format); i++ {
		if format[i] != '%' {
			lit += string(format[i])
			continue
		}
		if i+1 >= len(format) {
			return "", false
		}
		i++
		switch format[i] {
		case '%':
			lit += "%"
		case 's', 'v':
			x, ok := elems[argi]
			if !ok {
				return "", false
			}
			flush()
			parts = append(parts, g.value(x).T)
			argi++
		default:
			return "", false
		}
	}
	flush()
	if int(argi) != len(elems) {
		return "", false
	}
	switch len(parts) {
	case 0:
		return "\"\"", true
	case 1:
		return parts[0], true
	}
	return "(str.++ " + strings.Join(parts, " ") + ")", true
}

// ---------- builtins ----------

func (g *FuncGen) builtin(b *ssa.Builtin, cc *ssa.CallCommon, res ssa.Value, in ssa.Instruction) *Val {
	c := g.c
	ret := func(v Val) *Val { return &v }
	switch b.Name() {
	case "len", "cap":
		a := g.value(cc.Args[0])
		t := cc.Args[0].Type()
		i64 := c.intSort(64)
		switch u := t.Underlying().(type) {
		case *types.Slice:
			f := "s_len"
			if b.Name() == "cap" {
				f = "s_cap"
			}
			return ret(Val{T: fmt.Sprintf("(%s %s)", f, a.T), S: i64, GT: types.Typ[types.Int]})
		case *types.Basic:
			return ret(Val{T: g.strLen(a.T), S: i64, GT: types.Typ[types.Int]})
		case *types.Map:
			card := fmt.Sprintf("(%s %s)", g.cardFn(u), g.mapDom(g.cur, u, a.T))
			c.assert(implies(g.bcond[g.curBlock], g.le64(c.intLit64(0, 64), card)))
			// a map has length 0 exactly when it has no keys
			dom := g.mapDom(g.cur, u, a.T)
			c.assert(eq(eq(card, c.intLit64(0, 64)), eq(dom, fmt.Sprintf("((as const (Array %s Bool)) false)", c.sortOf(u.Key())))))
			return ret(Val{T: ite(eq(a.T, "0"), c.intLit64(0, 64), card), S: i64, GT: types.Typ[types.Int]})
		case *types.Array:
			return ret(Val{T: c.intLit64(u.Len(), 64), S: i64, GT: types.Typ[types.Int]})
		case *types.Pointer:
			if at, ok := u.Elem().Underlying().(*types.Array); ok {
				return ret(Val{T: c.intLit64(at.Len(), 64), S: i64, GT: types.Typ[types.Int]})
			}
		}
		g.unsup("len of %s", t)
	case "append":
		return g.appendBuiltin(cc, res, in)
	case "copy":
		return g.copyBuiltin(cc, res)
	case "delete":
		m := g.mapType(cc.Args[0].Type())
		mv := g.value(cc.Args[0])
		k := g.value(cc.Args[1])
		// delete on nil map is a no-op; model requires non-nil for simplicity of frames
		g.mapDeleteGuarded(m, mv.T, k.T)
		return nil
	case "panic":
		g.safe("panic", in, "false", g.posText(in))
		c.assert(not(g.bcond[g.curBlock]))
		return nil
	case "print", "println":
		return nil
	case "close":
		// closing a channel does not change the closer's modelled state; ghost statements can name it "chanclose"
		g.c.note("channel close: no effect on the closer's state (concurrency not modelled)")
		g.ghostState = g.cur
		g.ghostAtUncontracted("chanclose", []Val{g.value(cc.Args[0])}, nil)
		g.ghostState = nil
		return nil
	case "min", "max":
		a := g.value(cc.Args[0])
		for i := 1; i < len(cc.Args); i++ {
			bv := g.value(cc.Args[i])
			lt := g.binop(token.LSS, a, bv, cc.Args[0].Type(), cc.Args[i].Type(), nil)
			if b.Name() == "min" {
				a = Val{T: ite(lt.T, a.T, bv.T), S: a.S, GT: a.GT}
			} else {
				a = Val{T: ite(lt.T, bv.T, a.T), S: a.S, GT: a.GT}
			}
		}
		return ret(a)
	case "clear":
		if m, ok := cc.Args[0].Type().Underlying().(*types.Map); ok {
			mv := g.value(cc.Args[0])
			k := c.sortOf(m.Key())
			empty := fmt.Sprintf("((as const (Array %s Bool)) false)", k)
			c.assert(eq(fmt.Sprintf("(%s %s)", g.cardFn(m), empty), c.intLit64(0, 64)))
			g.heapStore(c.mapDomClass(m), mv.T, empty)
			return nil
		}
		g.unsup("clear of non-map")
	}
	g.unsup("builtin %s", b.Name())
	return nil
}

func (g *FuncGen) mapDeleteGuarded(m *types.Map, ref, k string) {
	// delete(nil, k) is a no-op: do the update on a ref only when non-nil.  Since heap updates are
	// functional we model it as an update at ref; at ref 0 nothing is ever read (nil maps read as empty).
	g.mapDelete(m, ref, k)
}

// append(s, elems...) with backing-array aliasing.
func (g *FuncGen) appendBuiltin(cc *ssa.CallCommon, res ssa.Value, in ssa.Instruction) *Val {
	c := g.c
	s := g.value(cc.Args[0])
	st, ok := cc.Args[0].Type().Underlying().(*types.Slice)
	if !ok {
		g.unsup("append to %s", cc.Args[0].Type())
	}
	if isStructType(st.Elem()) {
		// slices of structs: only the shape is modelled (length, capacity, whether the array is reused); the
		// appended elements' fields are left unconstrained (sound over-approximation, noted)
		c.note("append to a slice of structs: element contents not modelled (lengths only)")
		e := g.value(cc.Args[1])
		slen := fmt.Sprintf("(s_len %s)", s.T)
		scap := fmt.Sprintf("(s_cap %s)", s.T)
		newLen := g.add64(slen, fmt.Sprintf("(s_len %s)", e.T))
		newArr := g.newRef("append")
		newCap := c.fresh("newcap", c.intSort(64))
		c.assert(g.le64(newLen, newCap))
		c.assert(g.le64(newCap, c.intLit64(1<<40, 64)))
		result := ite(g.le64(newLen, scap),
			fmt.Sprintf("(mk_slice (s_arr %s) (s_off %s) %s %s)", s.T, s.T, newLen, scap),
			fmt.Sprintf("(mk_slice %s %s %s %s)", newArr, c.intLit64(0, 64), newLen, newCap))
		// the struct elements live in field classes at interior references: an in-place append overwrites
		// slots, a growing one copies - the values are not modelled, so the field classes of the element type are
		// havoced, but only inside the array that receives the elements (the old one if they fit, else a new one)
		g.havocStructElems(st.Elem(), ite(g.le64(newLen, scap), fmt.Sprintf("(s_arr %s)", s.T), newArr), "append")
		if res == nil {
			return nil
		}
		v := g.define(res, result)
		return &v
	}
	e := g.value(cc.Args[1])
	if isString(cc.Args[1].Type()) {
		g.unsup("append(bytes, string...)")
	}
	cl := c.elemClass(st.Elem())
	es := c.sortOf(st.Elem())
	i64 := c.intSort(64)
	elen := fmt.Sprintf("(s_len %s)", e.T)
	// Only the common case of a statically known number of appended elements is modelled precisely:
	// the variadic slice is built by the compiler from a fresh array (new [k]T; slice t[:]).
	k := g.staticVarargLen(cc.Args[1])
	slen := fmt.Sprintf("(s_len %s)", s.T)
	scap := fmt.Sprintf("(s_cap %s)", s.T)
	newLen := g.add64(slen, elen)
	fits := g.le64(newLen, scap)
	heap := g.heapOf(g.cur, cl)
	// in-place case: write elements at off+len+j into the existing backing array
	// grow case: fresh array whose first len elements equal the old ones
	newArr := g.newRef("append")
	var inPlace, grown string
	oldData := fmt.Sprintf("(select %s (s_arr %s))", heap, s.T)
	if k >= 0 {
		inPlace = oldData
		for j := 0; j < k; j++ {
			ev := fmt.Sprintf("(select (select %s (s_arr %s)) %s)", heap, e.T, g.add64(fmt.Sprintf("(s_off %s)", e.T), c.intLit64(int64(j), 64)))
			inPlace = fmt.Sprintf("(store %s %s %s)", inPlace, g.add64(g.add64(fmt.Sprintf("(s_off %s)", s.T), slen), c.intLit64(int64(j), 64)), ev)
		}
		// grown array: elements [0,len) copied, then the new ones; described by a fresh array with pointwise facts
		ga := c.fresh("grown", fmt.Sprintf("(Array %s %s)", i64, es))
		c.useQuant = true
		c.assert(fmt.Sprintf("(forall ((i %s)) (=> %s (= (select %s i) (select %s %s))))", i64,
			and(g.le64(c.intLit64(0, 64), "i"), g.lt64("i", slen)), ga, oldData, g.add64(fmt.Sprintf("(s_off %s)", s.T), "i")))
		// ground instances of the copy fact for the first few positions: short slices built by a handful of
		// appends are then decided without quantifier instantiation
		for i := 0; i < 4; i++ {
			ii := c.intLit64(int64(i), 64)
			c.assert(implies(g.lt64(ii, slen), eq(fmt.Sprintf("(select %s %s)", ga, ii), fmt.Sprintf("(select %s %s)", oldData, g.add64(fmt.Sprintf("(s_off %s)", s.T), ii)))))
		}
		grown = ga
		for j := 0; j < k; j++ {
			ev := fmt.Sprintf("(select (select %s (s_arr %s)) %s)", heap, e.T, g.add64(fmt.Sprintf("(s_off %s)", e.T), c.intLit64(int64(j), 64)))
			grown = fmt.Sprintf("(store %s %s %s)", grown, g.add64(slen, c.intLit64(int64(j), 64)), ev)
		}
	} else {
		// unknown number of elements: pointwise description of both cases
		c.useQuant = true
		ia := c.fresh("inplace", fmt.Sprintf("(Array %s %s)", i64, es))
		srcData := fmt.Sprintf("(select %s (s_arr %s))", heap, e.T)
		base := g.add64(fmt.Sprintf("(s_off %s)", s.T), slen)
		c.assert(fmt.Sprintf("(forall ((i %s)) (= (select %s i) (ite %s (select %s %s) (select %s i))))", i64, ia,
			and(g.le64(base, "i"), g.lt64("i", g.add64(base, elen))),
			srcData, g.add64(fmt.Sprintf("(s_off %s)", e.T), g.sub64("i", base)), oldData))
		inPlace = ia
		ga := c.fresh("grown", fmt.Sprintf("(Array %s %s)", i64, es))
		c.assert(fmt.Sprintf("(forall ((i %s)) (=> %s (= (select %s i) (ite %s (select %s %s) (select %s %s)))))", i64,
			and(g.le64(c.intLit64(0, 64), "i"), g.lt64("i", newLen)), ga,
			g.lt64("i", slen), oldData, g.add64(fmt.Sprintf("(s_off %s)", s.T), "i"),
			srcData, g.add64(fmt.Sprintf("(s_off %s)", e.T), g.sub64("i", slen))))
		grown = ga
	}
	newCap := c.fresh("newcap", i64)
	c.assert(g.le64(newLen, newCap))
	c.assert(g.le64(newCap, c.intLit64(1<<40, 64)))
	// nil or full: grow
	result := ite(fits,
		fmt.Sprintf("(mk_slice (s_arr %s) (s_off %s) %s %s)", s.T, s.T, newLen, scap),
		fmt.Sprintf("(mk_slice %s %s %s %s)", newArr, c.intLit64(0, 64), newLen, newCap))
	// heap update
	nh := c.fresh(cl, c.classes[cl])
	c.assert(eq(nh, ite(fits, fmt.Sprintf("(store %s (s_arr %s) %s)", heap, s.T, inPlace), fmt.Sprintf("(store %s %s %s)", heap, newArr, grown))))
	g.cur.heap[cl] = nh
	// set view (a consequence of the element-wise model, stated explicitly because the witnesses are hard
	// for the solvers to find): the elements of the result are those of s together with the appended ones.
	// Only emitted under `option setview`, so that functions not reasoning about element sets keep small VCs.
	if g.contract != nil && g.contract.Options["setview"] == "true" {
		ssRes := g.sliceSetOf(nh, result, st.Elem())
		ssOld := g.sliceSetOf(heap, s.T, st.Elem())
		var added string
		if k >= 0 {
			var eqs []string
			for j := 0; j < k; j++ {
				ev := fmt.Sprintf("(select (select %s (s_arr %s)) %s)", heap, e.T, g.add64(fmt.Sprintf("(s_off %s)", e.T), c.intLit64(int64(j), 64)))
				eqs = append(eqs, eq("qx", ev))
			}
			added = or(eqs...)
		} else {
			added = fmt.Sprintf("(select %s qx)", g.sliceSetOf(heap, e.T, st.Elem()))
		}
		c.useQuant = true
		c.assert(fmt.Sprintf("(forall ((qx %s)) (= (select %s qx) %s))", es, ssRes, or(fmt.Sprintf("(select %s qx)", ssOld), added)))
	}
	// appending zero elements to a nil slice yields nil: ignored (len stays 0 either way)
	if res == nil {
		return nil
	}
	v := g.define(res, result)
	return &v
}

// copy(dst, src) for slices of a non-struct element type (memmove semantics: the source is read in the state
// before the call, so overlapping ranges are handled); returns min(len(dst), len(src)).
func (g *FuncGen) copyBuiltin(cc *ssa.CallCommon, res ssa.Value) *Val {
	c := g.c
	dt, ok := cc.Args[0].Type().Underlying().(*types.Slice)
	if !ok || isStructType(dt.Elem()) {
		g.unsup("copy to %s", cc.Args[0].Type())
	}
	if isString(cc.Args[1].Type()) {
		g.unsup("copy(bytes, string)")
	}
	d, s := g.value(cc.Args[0]), g.value(cc.Args[1])
	cl := c.elemClass(dt.Elem())
	es := c.sortOf(dt.Elem())
	i64 := c.intSort(64)
	heap := g.heapOf(g.cur, cl)
	dlen, slen := fmt.Sprintf("(s_len %s)", d.T), fmt.Sprintf("(s_len %s)", s.T)
	n := c.fresh("copied", i64)
	c.assert(eq(n, ite(g.le64(dlen, slen), dlen, slen)))
	doff, soff := fmt.Sprintf("(s_off %s)", d.T), fmt.Sprintf("(s_off %s)", s.T)
	oldD := fmt.Sprintf("(select %s (s_arr %s))", heap, d.T)
	srcD := fmt.Sprintf("(select %s (s_arr %s))", heap, s.T)
	na := c.fresh("copydst", fmt.Sprintf("(Array %s %s)", i64, es))
	c.useQuant = true
	c.assert(fmt.Sprintf("(forall ((i %s)) (= (select %s i) (ite %s (select %s %s) (select %s i))))", i64, na,
		and(g.le64(doff, "i"), g.lt64("i", g.add64(doff, n))), srcD, g.add64(soff, g.sub64("i", doff)), oldD))
	// ground instances for short copies (fixed-size key/value fields)
	for j := 0; j < 8; j++ {
		jj := c.intLit64(int64(j), 64)
		c.assert(implies(g.lt64(jj, n), eq(fmt.Sprintf("(select %s %s)", na, g.add64(doff, jj)), fmt.Sprintf("(select %s %s)", srcD, g.add64(soff, jj)))))
	}
	nh := c.fresh(cl, c.classes[cl])
	c.assert(eq(nh, fmt.Sprintf("(store %s (s_arr %s) %s)", heap, d.T, na)))
	g.cur.heap[cl] = nh
	if res == nil {
		return nil
	}
	v := g.define(res, n)
	return &v
}

// structLeafClasses: the heap classes holding the (nested) fields of struct type t.
func (c *Ctx) structLeafClasses(t types.Type) []string {
	var out []string
	seen := map[string]bool{}
	var walk func(t types.Type, depth int)
	walk = func(t types.Type, depth int) {
		est, ename, ok := c.structOf(t)
		if !ok || depth > 4 {
			return
		}
		for i := 0; i < est.NumFields(); i++ {
			f := est.Field(i)
			var cl string
			switch {
			case isStructType(f.Type()):
				walk(f.Type(), depth+1)
				continue
			case isArrayType(f.Type()):
				cl = c.elemClass(f.Type().Underlying().(*types.Array).Elem())
			default:
				cl = c.fieldClass(ename, f)
			}
			if !seen[cl] {
				seen[cl] = true
				out = append(out, cl)
			}
		}
	}
	walk(t, 0)
	return out
}

// havocStructElems havocs the field classes of struct type t at the interior references of array `arr`
// (elements of a slice of structs); every location rooted elsewhere keeps its value.
func (g *FuncGen) havocStructElems(t types.Type, arr string, why string) {
	c := g.c
	for _, cl := range c.structLeafClasses(t) {
		old := g.heapOf(g.cur, cl)
		nh := c.fresh(cl+"@"+why, c.classes[cl])
		c.useQuant = true
		c.assert(fmt.Sprintf("(forall ((qr Int)) (! (=> (not (= %s %s)) (= (select %s qr) (select %s qr))) :pattern ((select %s qr))))",
			c.root("qr"), c.root(arr), nh, old, nh))
		g.cur.heap[cl] = nh
	}
}

// sliceSetOf returns the term for the set of elements of slice term sl read in element heap `heap`:
// ss_<sort>(data, off, len) with data = heap[s_arr sl].  ss is uninterpreted; its intended meaning is
// { data[off+i] | 0 <= i < len }.  The facts emitted per distinct term (membership of every element, an
// index witness for every member, emptiness at length 0) are all true of that meaning.
func (g *FuncGen) sliceSetOf(heap, sl string, elem types.Type) string {
	c := g.c
	es := c.sortOf(elem)
	i64 := c.intSort(64)
	fn := "ss_" + sortKey(es)
	c.decl(fmt.Sprintf("(declare-fun %s ((Array %s %s) %s %s) (Array %s Bool))", fn, i64, es, i64, i64, es))
	c.decl(fmt.Sprintf("(declare-fun %s_idx ((Array %s %s) %s %s %s) %s)", fn, i64, es, i64, i64, es, i64))
	data := fmt.Sprintf("(select %s (s_arr %s))", heap, sl)
	off := fmt.Sprintf("(s_off %s)", sl)
	ln := fmt.Sprintf("(s_len %s)", sl)
	t := fmt.Sprintf("(%s %s %s %s)", fn, data, off, ln)
	if strings.Contains(t, "q_") || strings.Contains(t, "qx") {
		return t
	}
	key := "ssfacts:" + t
	if c.declared[key] {
		return t
	}
	c.declared[key] = true
	c.useQuant = true
	zero := c.intLit64(0, 64)
	c.global(func() {
		c.assert(fmt.Sprintf("(forall ((qi %s)) (=> %s (select %s (select %s %s))))", i64,
			and(g.le64(zero, "qi"), g.lt64("qi", ln)), t, data, g.add64(off, "qi")))
		wi := fmt.Sprintf("(%s_idx %s %s %s qx)", fn, data, off, ln)
		c.assert(fmt.Sprintf("(forall ((qx %s)) (! (=> (select %s qx) %s) :pattern ((select %s qx))))", es, t,
			and(g.le64(zero, wi), g.lt64(wi, ln), eq(fmt.Sprintf("(select %s %s)", data, g.add64(off, wi)), "qx")), t))
	})
	return t
}

// staticVarargLen returns k if v is `slice (new [k]T)[:]`, else -1.
func (g *FuncGen) staticVarargLen(v ssa.Value) int {
	sl, ok := v.(*ssa.Slice)
	if !ok || sl.Low != nil || sl.High != nil {
		return -1
	}
	al, ok := sl.X.(*ssa.Alloc)
	if !ok {
		return -1
	}
	at, ok := al.Type().Underlying().(*types.Pointer).Elem().Underlying().(*types.Array)
	if !ok || at.Len() > 8 {
		return -1
	}
	return int(at.Len())
}

// ---------- contracts at call sites ----------

func (g *FuncGen) paramNames(ct *FuncContract, sig *types.Signature, hasRecv bool) []string {
	var names []string
	if len(ct.ParamNames) > 0 {
		return ct.ParamNames
	}
	if hasRecv && sig.Recv() != nil {
		n := sig.Recv().Name()
		if n == "" || n == "_" {
			n = "recv"
		}
		names = append(names, n)
	} else if hasRecv {
		names = append(names, "recv")
	}
	ps := sig.Params()
	for i := 0; i < ps.Len(); i++ {
		n := ps.At(i).Name()
		if n == "" || n == "_" {
			n = fmt.Sprintf("arg%d", i)
		}
		names = append(names, n)
	}
	return names
}

func (g *FuncGen) applyContract(ct *FuncContract, sig *types.Signature, args []Val, hasRecv bool, res ssa.Value, in ssa.Instruction, name string) *Val {
	c := g.c
	g.callOrd[name]++
	ord := g.callOrd[name]
	short := name
	if k := strings.LastIndex(short, "/"); k >= 0 {
		short = short[k+1:]
	}
	names := g.paramNames(ct, sig, hasRecv)
	if len(names) != len(args) {
		g.unsup("contract %s: %d parameter names for %d arguments", name, len(names), len(args))
	}
	vars := map[string]Val{}
	ptypes := g.paramTypes(sig, hasRecv)
	for i, n := range names {
		a := args[i]
		if i < len(ptypes) && ptypes[i] != nil {
			a.GT = ptypes[i]
		}
		vars[n] = a
	}
	// positional aliases (arg0 = receiver or first argument), so that a caller's ghost statements read the same
	// whether or not the callee has a contract - and cannot be captured by the callee's parameter names
	for i := range names {
		an := fmt.Sprintf("arg%d", i)
		if _, taken := vars[an]; !taken {
			vars[an] = vars[names[i]]
		}
	}
	pre := g.cur.clone()
	var calleePkg *types.Package
	if ct.Pkg != "" {
		calleePkg = g.prog.TypesPkgs[ct.Pkg]
	}
	if calleePkg == nil {
		calleePkg = g.pkg
	}
	env := &Env{g: g, vars: vars, cur: pre, old: pre, pkg: calleePkg}
	// option callpre off (in the CALLER's contract): the callee's preconditions are not checked at this call
	// site; its postconditions are then assumed only for calls that do meet the preconditions
	preGuard := "true"
	skipPre := g.contract != nil && g.contract.Options["callpre"] == "off"
	for i, rq := range ct.Requires {
		t := g.trBool(env, rq.E, "")
		if skipPre {
			preGuard = and(preGuard, t)
			continue
		}
		o := &Obligation{Name: fmt.Sprintf("%s/call:%s@%d/pre#%d", g.fnName, short, ord, i+1), Guard: g.bcond[g.curBlock], Goal: t, Kind: "call-precondition", Text: rq.Text}
		if in != nil {
			o.Pos = g.prog.Fset.Position(in.Pos())
		}
		g.addObl(o)
		c.assert(implies(g.bcond[g.curBlock], t))
	}
	if ct.Trusted {
		c.note("trusted contract (body not verified): " + name)
	}
	// frame
	if !ct.AssignsSet {
		// a contract without an assigns clause allows the callee to write anything - including what `option
		// stable` protects from callees that have no contract at all
		// (`option stable-contracted` in the caller extends the stable assumption to these callees as well: their
		// contracts say nothing about frames either way; the assumption is listed in the evidence)
		if g.contract != nil && g.contract.Options["stable-contracted"] == "true" {
			g.c.note("assumed: callees whose contract has no assigns clause do not write the heap classes named by option stable (option stable-contracted)")
			g.havocAll("call " + short)
		} else {
			g.ignoreStable = true
			g.havocAll("call " + short)
			g.ignoreStable = false
		}
		// ... and any ghost variable
		var gnames []string
		for gn := range g.prog.Ghosts {
			gnames = append(gnames, gn)
		}
		sort.Strings(gnames)
		for _, gn := range gnames {
			// ... that the callee's contract speaks about (its ensures clauses or its own ghost updates);
			// a callee whose contract never mentions a ghost variable cannot change it (ghost variables are
			// only ever written by `ghost at call` statements of contracts)
			if !contractMentionsGhost(g.prog, ct, gn) {
				continue
			}
			if _, used := g.cur.ghost[gn]; used {
				g.cur.ghost[gn] = c.fresh("ghost_"+gn+"@call", g.specSort(g.prog.Ghosts[gn].Type))
			}
		}
	} else if !ct.AssignsNothing {
		for _, a := range ct.Assigns {
			g.havocLocation(env, a)
		}
	}
	if ct.Options["allocates"] == "true" || !ct.AssignsSet || true {
		nh := c.fresh("hwm", SInt)
		c.assert(fmt.Sprintf("(<= %s %s)", g.cur.hwm, nh))
		g.cur.hwm = nh
	}
	// results
	var results []Val
	rs := sig.Results()
	for i := 0; i < rs.Len(); i++ {
		results = append(results, g.freshOfType(fmt.Sprintf("%s_r%d", sanitize(short), i), rs.At(i).Type()))
	}
	post := &Env{g: g, vars: map[string]Val{}, cur: g.cur, old: pre, pkg: calleePkg}
	for k, v := range vars {
		post.vars[k] = v
	}
	bindResults(post.vars, sig, results, ct.ResultNames)
	for _, en := range ct.Ensures {
		t := g.trBool(post, en.E, "")
		c.assert(implies(and(g.bcond[g.curBlock], preGuard), t))
	}
	g.runGhostAt(name, ord, post, results)
	if res == nil {
		return nil
	}
	switch len(results) {
	case 0:
		return &Val{Tup: []Val{}}
	case 1:
		return &results[0]
	}
	return &Val{Tup: results}
}

func (g *FuncGen) paramTypes(sig *types.Signature, hasRecv bool) []types.Type {
	var ts []types.Type
	if hasRecv {
		if sig.Recv() != nil {
			ts = append(ts, sig.Recv().Type())
		} else {
			ts = append(ts, nil)
		}
	}
	for i := 0; i < sig.Params().Len(); i++ {
		ts = append(ts, sig.Params().At(i).Type())
	}
	return ts
}

// havocLocation havocs one location named in an assigns clause.
func (g *FuncGen) havocLocation(env *Env, e Expr) {
	c := g.c
	switch x := e.(type) {
	case *EField:
		base := g.tr(env, x.X)
		pt := derefType(base.GT)
		if cl, gs, ok := g.ghostFieldClass(pt, x.Name); ok {
			g.heapStore(cl, base.T, c.fresh("havoc_ghost_"+x.Name, gs))
			return
		}
		st, name, ok := c.structOf(pt)
		if !ok {
			g.unsup("assigns %s: not a struct", e)
		}
		for i := 0; i < st.NumFields(); i++ {
			f := st.Field(i)
			if x.Name != "*" && f.Name() != x.Name {
				continue
			}
			g.havocField(name, f, base.T)
		}
	case *EIndex:
		base := g.tr(env, x.X)
		switch t := types.Unalias(base.GT).Underlying().(type) {
		case *types.Slice:
			if isStructType(t.Elem()) {
				// slice of structs: the elements' fields, anywhere in the backing array
				g.havocStructElems(t.Elem(), fmt.Sprintf("(s_arr %s)", base.T), "havoc")
				return
			}
			cl := c.elemClass(t.Elem())
			fresh := c.fresh("havoc_elems", fmt.Sprintf("(Array %s %s)", c.intSort(64), c.sortOf(t.Elem())))
			if id, ok := x.I.(*EIdent); ok && id.Name == "*" {
				// only indices inside the slice window change
				c.useQuant = true
				old := fmt.Sprintf("(select %s (s_arr %s))", g.heapOf(g.cur, cl), base.T)
				lo := fmt.Sprintf("(s_off %s)", base.T)
				hi := g.add64(lo, fmt.Sprintf("(s_cap %s)", base.T)) // up to cap: an in-place append writes beyond len
				c.assert(fmt.Sprintf("(forall ((i %s)) (=> (not %s) (= (select %s i) (select %s i))))", c.intSort(64),
					and(g.le64(lo, "i"), g.lt64("i", hi)), fresh, old))
				g.heapStore(cl, fmt.Sprintf("(s_arr %s)", base.T), fresh)
			} else if rg, ok := x.I.(*ERange); ok {
				// constant index range: havoc exactly those elements (quantifier-free)
				lo, hi := g.constInt(env, rg.Lo), g.constInt(env, rg.Hi)
				arr := fmt.Sprintf("(select %s (s_arr %s))", g.heapOf(g.cur, cl), base.T)
				for k := lo; k < hi; k++ {
					arr = fmt.Sprintf("(store %s %s %s)", arr, g.add64(fmt.Sprintf("(s_off %s)", base.T), c.intLit64(k, 64)), c.fresh("havoc_elem", c.sortOf(t.Elem())))
				}
				g.heapStore(cl, fmt.Sprintf("(s_arr %s)", base.T), arr)
			} else {
				g.unsup("assigns %s", e)
			}
		case *types.Map:
			g.heapStore(c.mapDomClass(t), base.T, c.fresh("havoc_dom", fmt.Sprintf("(Array %s Bool)", c.sortOf(t.Key()))))
			g.heapStore(c.mapValClass(t), base.T, c.fresh("havoc_vals", fmt.Sprintf("(Array %s %s)", c.sortOf(t.Key()), c.sortOf(t.Elem()))))
		default:
			g.unsup("assigns %s", e)
		}
	case *EDeref:
		base := g.tr(env, x.X)
		pt := derefType(base.GT)
		if isStructType(pt) {
			st, name, _ := c.structOf(pt)
			for i := 0; i < st.NumFields(); i++ {
				g.havocField(name, st.Field(i), base.T)
			}
			return
		}
		cl := c.cellClass(pt)
		g.heapStore(cl, base.T, c.fresh("havoc_cell", c.sortOf(pt)))
	case *ECall:
		// fieldsof(T): any field of any object of struct type T (only in trusted contracts of external functions)
		if x.Fun == "fieldsof" && len(x.Args) == 1 {
			t, _ := g.specType(x.Args[0].String(), env.pkg)
			if t == nil {
				t, _ = g.specType(x.Args[0].String(), g.pkg)
			}
			if t == nil {
				g.unsup("assigns %s: unknown type", e)
			}
			if _, _, ok := c.structOf(t); !ok {
				g.unsup("assigns %s: not a struct type", e)
			}
			seen := map[string]bool{}
			var hv func(t types.Type)
			hv = func(t types.Type) {
				st, name, ok := c.structOf(t)
				if !ok || seen[name] {
					return
				}
				seen[name] = true
				for _, cl := range append([]string{}, c.classList...) {
					if strings.HasPrefix(cl, "F_"+name+"_") {
						g.cur.heap[cl] = c.fresh(cl+"@havoc", c.classes[cl])
					}
				}
				for i := 0; i < st.NumFields(); i++ {
					ft := st.Field(i).Type()
					if isStructType(ft) {
						hv(ft) // embedded / nested struct values live in their own field classes
					}
					if at, ok := ft.Underlying().(*types.Array); ok {
						cl := c.elemClass(at.Elem())
						g.cur.heap[cl] = c.fresh(cl+"@havoc", c.classes[cl])
					}
				}
			}
			hv(t)
			return
		}
		g.unsup("assigns %s", e)
	case *EIdent:
		if _, ok := g.prog.Ghosts[x.Name]; ok {
			g.cur.ghost[x.Name] = c.fresh("ghost_"+x.Name, g.specSort(g.prog.Ghosts[x.Name].Type))
			return
		}
		g.unsup("assigns %s", e)
	default:
		g.unsup("assigns %s", e)
	}
}

func (g *FuncGen) havocField(structName string, f *types.Var, ref string) {
	c := g.c
	if isStructType(f.Type()) {
		st, name, _ := c.structOf(f.Type())
		for i := 0; i < st.NumFields(); i++ {
			g.havocField(name, st.Field(i), c.subRef(structName, f, ref))
		}
		return
	}
	if isArrayType(f.Type()) {
		at := f.Type().Underlying().(*types.Array)
		g.heapStore(c.elemClass(at.Elem()), c.subRef(structName, f, ref), c.fresh("havoc_arr", c.sortOf(f.Type())))
		return
	}
	v := g.freshOfType("havoc_"+f.Name(), f.Type())
	g.heapStore(c.fieldClass(structName, f), ref, v.T)
}

func derefType(t types.Type) types.Type {
	if t == nil {
		return nil
	}
	if p, ok := types.Unalias(t).Underlying().(*types.Pointer); ok {
		return p.Elem()
	}
	return t
}

// havocAll: an unknown call may change any reachable heap location; non-escaping locals survive.
func (g *FuncGen) havocAll(why string) {
	c := g.c
	c.note("havoc: " + why)
	stable := g.stableClasses()
	for _, cl := range c.classList {
		if stable[cl] && !g.ignoreStable {
			continue // option stable: assumed not written by callees that have no contract
		}
		old := g.heapOf(g.cur, cl)
		n := c.fresh(cl+"@havoc", c.classes[cl])
		for _, r := range g.localRefs {
			if lc, ok := g.localRefClasses[r]; ok && !lc[cl] {
				continue // this local holds no data in this class
			}
			c.assert(fmt.Sprintf("(= (select %s %s) (select %s %s))", n, r, old, r))
		}
		g.cur.heap[cl] = n
	}
	nh := c.fresh("hwm", SInt)
	c.assert(fmt.Sprintf("(<= %s %s)", g.cur.hwm, nh))
	g.cur.hwm = nh
}

// contractMentionsGhost: the ghost variable occurs in an ensures clause or is assigned by a ghost statement of ct.
func contractMentionsGhost(prog *Program, ct *FuncContract, name string) bool {
	isWord := func(s string, i, n int) bool {
		before := i == 0 || !isIdentByte(s[i-1])
		after := i+n >= len(s) || !isIdentByte(s[i+n])
		return before && after
	}
	has := func(s string) bool {
		for i := strings.Index(s, name); i >= 0; {
			if isWord(s, i, len(name)) {
				return true
			}
			j := strings.Index(s[i+1:], name)
			if j < 0 {
				break
			}
			i += 1 + j
		}
		return false
	}
	for _, e := range ct.Ensures {
		if has(e.Text) || (e.E != nil && has(e.E.String())) {
			return true
		}
		// ... or through a spec macro/function the clause uses (one or two levels)
		if prog != nil {
			txt := e.Text
			for depth := 0; depth < 3; depth++ {
				next := ""
				for _, sf := range prog.SpecFuncs {
					if sf.BodyTxt != "" && strings.Contains(txt, sf.Name+"(") {
						if has(sf.BodyTxt) {
							return true
						}
						next += " " + sf.BodyTxt
					}
				}
				if next == "" {
					break
				}
				txt = next
			}
		}
	}
	for _, ga := range ct.Ghosts {
		for _, st := range ga.Stmts {
			if st.Kind == "set" && st.Var == name {
				return true
			}
		}
	}
	return false
}

// stableClasses: heap classes named by `option stable (*T).f, []E, ...` - fields (of every object of struct type
// T) and slice elements (of every slice of E) that callees without a contract are assumed not to write.  The
// assumption is listed in the evidence; callees that do write them must be given contracts.
func (g *FuncGen) stableClasses() map[string]bool {
	if g.stableCache != nil {
		return g.stableCache
	}
	g.stableCache = map[string]bool{}
	if g.contract == nil || g.contract.Options["stable"] == "" {
		return g.stableCache
	}
	c := g.c
	for _, w := range strings.Fields(strings.ReplaceAll(g.contract.Options["stable"], ",", " ")) {
		switch {
		case strings.HasPrefix(w, "*"):
			// variables (cells) of this type, e.g. package-level variables that are only ever initialised
			t, _ := g.specType(w[1:], g.pkg)
			if t == nil {
				g.unsup("option stable %s: unknown type", w)
			}
			g.stableCache[c.cellClass(t)] = true
		case strings.HasPrefix(w, "map["):
			t, _ := g.specType(w, g.pkg)
			m, ok := t.(*types.Map)
			if !ok {
				g.unsup("option stable %s: not a map type", w)
			}
			g.stableCache[c.mapDomClass(m)] = true
			g.stableCache[c.mapValClass(m)] = true
		case strings.HasPrefix(w, "[]"):
			t, _ := g.specType(w[2:], g.pkg)
			if t == nil {
				g.unsup("option stable %s: unknown element type", w)
			}
			g.stableCache[c.elemClass(t)] = true
		case strings.HasPrefix(w, "("):
			k := strings.LastIndex(w, ".")
			if k < 0 {
				g.unsup("option stable %s", w)
			}
			t, _ := g.specType(strings.Trim(w[:k], "(*)"), g.pkg)
			if t == nil {
				g.unsup("option stable %s: unknown type", w)
			}
			st, name, ok := c.structOf(t)
			if !ok {
				g.unsup("option stable %s: not a struct", w)
			}
			f, _ := findField(st, w[k+1:])
			if f == nil {
				g.unsup("option stable %s: no such field (stale-contract?)", w)
			}
			g.stableCache[c.fieldClass(name, f)] = true
		default:
			g.unsup("option stable %s", w)
		}
	}
	c.note("assumed: callees without a contract do not write " + g.contract.Options["stable"] + " (option stable)")
	return g.stableCache
}

func (g *FuncGen) havocCall(name string, cc *ssa.CallCommon, args []Val, res ssa.Value, in ssa.Instruction) *Val {
	g.havocAll(name)
	if res == nil {
		return nil
	}
	if t, ok := res.Type().(*types.Tuple); ok && t.Len() == 0 {
		return &Val{Tup: []Val{}}
	}
	v := g.freshFor(res)
	g.resultNotOwn(v)
	return &v
}

// resultNotOwn: what a call without a contract returns cannot be (part of) one of this function's own
// non-escaping allocations - no callee was ever handed a reference to them.
func (g *FuncGen) resultNotOwn(v Val) {
	if len(g.ownRefs) == 0 {
		return
	}
	if v.Tup != nil {
		for _, e := range v.Tup {
			g.resultNotOwn(e)
		}
		return
	}
	if v.GT == nil {
		return
	}
	var ref string
	switch types.Unalias(v.GT).Underlying().(type) {
	case *types.Pointer, *types.Map:
		ref = v.T
	case *types.Slice:
		ref = fmt.Sprintf("(s_arr %s)", v.T)
	default:
		return
	}
	for _, r := range g.ownRefs {
		g.c.assert(implies(g.bcond[g.curBlock], not(eq(g.c.root(ref), r))))
	}
}

// ---------- frame check for the function under verification ----------

type frameLoc struct {
	ref  string
	elem string // for slices: condition on index variable "fi!" (empty = whole object)
	root string // for slices of structs: any location rooted in this array
}

func (g *FuncGen) checkAssigns(x *ssa.Return, guard string, tag string) {
	ct := g.contract
	if f := g.frameFormula(g.cur); f != "true" {
		g.assignParts = append(g.assignParts, implies(guard, f))
	}
	// ghost variables not listed must be unchanged
	for name := range g.prog.Ghosts {
		listed := false
		for _, a := range ct.Assigns {
			if id, ok := a.(*EIdent); ok && id.Name == name {
				listed = true
			}
		}
		if !listed && g.cur.ghost[name] != g.entry.ghost[name] {
			g.assignParts = append(g.assignParts, implies(guard, eq(g.cur.ghost[name], g.entry.ghost[name])))
		}
	}
}

// frameLocs: per heap class, the locations the function's assigns clause allows to change (evaluated at entry).
func (g *FuncGen) frameLocs() map[string][]frameLoc {
	if g.frameCache != nil {
		return g.frameCache
	}
	type loc = frameLoc
	c := g.c
	ct := g.contract
	env := g.envAt(g.entry, g.entry, nil)
	allowed := map[string][]loc{}
	g.frameCache = allowed
	if !ct.AssignsNothing {
		for _, a := range ct.Assigns {
			switch e := a.(type) {
			case *EField:
				base := g.tr(env, e.X)
				if cl, _, ok := g.ghostFieldClass(derefType(base.GT), e.Name); ok {
					allowed[cl] = append(allowed[cl], loc{ref: base.T})
					continue
				}
				st, name, ok := c.structOf(derefType(base.GT))
				if !ok {
					g.unsup("assigns %s", a)
				}
				var add func(sn string, f *types.Var, ref string)
				add = func(sn string, f *types.Var, ref string) {
					if isStructType(f.Type()) {
						st2, n2, _ := c.structOf(f.Type())
						for i := 0; i < st2.NumFields(); i++ {
							add(n2, st2.Field(i), c.subRef(sn, f, ref))
						}
						return
					}
					if isArrayType(f.Type()) {
						at := f.Type().Underlying().(*types.Array)
						allowed[c.elemClass(at.Elem())] = append(allowed[c.elemClass(at.Elem())], loc{ref: c.subRef(sn, f, ref)})
						return
					}
					cl := c.fieldClass(sn, f)
					allowed[cl] = append(allowed[cl], loc{ref: ref})
				}
				for i := 0; i < st.NumFields(); i++ {
					if e.Name == "*" || st.Field(i).Name() == e.Name {
						add(name, st.Field(i), base.T)
					}
				}
			case *EIndex:
				base := g.tr(env, e.X)
				switch t := types.Unalias(base.GT).Underlying().(type) {
				case *types.Slice:
					if isStructType(t.Elem()) {
						for _, cl := range c.structLeafClasses(t.Elem()) {
							allowed[cl] = append(allowed[cl], loc{root: fmt.Sprintf("(s_arr %s)", base.T)})
						}
						continue
					}
					cl := c.elemClass(t.Elem())
					lo := fmt.Sprintf("(s_off %s)", base.T)
					hi := g.add64(lo, fmt.Sprintf("(s_cap %s)", base.T))
					if rg, ok := e.I.(*ERange); ok {
						off := lo
						lo = g.add64(off, c.intLit64(g.constInt(env, rg.Lo), 64))
						hi = g.add64(off, c.intLit64(g.constInt(env, rg.Hi), 64))
					}
					allowed[cl] = append(allowed[cl], loc{ref: fmt.Sprintf("(s_arr %s)", base.T), elem: and(g.le64(lo, "fi!"), g.lt64("fi!", hi))})
				case *types.Map:
					allowed[c.mapDomClass(t)] = append(allowed[c.mapDomClass(t)], loc{ref: base.T})
					allowed[c.mapValClass(t)] = append(allowed[c.mapValClass(t)], loc{ref: base.T})
				default:
					g.unsup("assigns %s", a)
				}
			case *EDeref:
				base := g.tr(env, e.X)
				pt := derefType(base.GT)
				if isStructType(pt) {
					g.unsup("assigns *struct: use x.*")
				}
				allowed[c.cellClass(pt)] = append(allowed[c.cellClass(pt)], loc{ref: base.T})
			case *EIdent:
				// ghost variable: no heap class
			default:
				g.unsup("assigns %s", a)
			}
		}
	}
	return allowed
}

// frameFormula: objects allocated before the call are unchanged in state st except at allowed locations.
// The reference frame_ref! (and index fi!) are free constants, i.e. universally quantified in an obligation.
func (g *FuncGen) frameFormula(st *State) string {
	return g.frameFormulaFor(st, "frame_ref!", "fi!")
}

func (g *FuncGen) frameFormulaFor(st *State, r, fi string) string {
	c := g.c
	allowed := g.frameLocs()
	if r == "frame_ref!" {
		c.constant("frame_ref!", SInt)
		c.constant("fi!", c.intSort(64))
	}
	c.root("0")
	var parts []string
	for _, cl := range c.classList {
		now := g.heapOf(st, cl)
		was := g.heapOf(g.entry, cl)
		if now == was {
			continue
		}
		var excl []string
		elemWise := strings.HasPrefix(cl, "E_")
		for _, l := range allowed[cl] {
			if l.root != "" {
				excl = append(excl, eq(c.root(r), c.root(l.root)))
			} else if l.elem != "" {
				excl = append(excl, and(eq(r, l.ref), strings.ReplaceAll(l.elem, "fi!", fi)))
			} else {
				excl = append(excl, eq(r, l.ref))
			}
		}
		var same string
		if elemWise {
			same = eq(fmt.Sprintf("(select (select %s %s) %s)", now, r, fi), fmt.Sprintf("(select (select %s %s) %s)", was, r, fi))
		} else {
			same = eq(fmt.Sprintf("(select %s %s)", now, r), fmt.Sprintf("(select %s %s)", was, r))
		}
		parts = append(parts, implies(and(fmt.Sprintf("(<= (root %s) hwm@0)", r), fmt.Sprintf("(not (= %s 0))", r), not(or(excl...))), same))
	}
	return and(parts...)
}


// instrWrites: heap classes an instruction may write (for loop havoc).
func (g *FuncGen) instrWrites(in ssa.Instruction) (classes []string, all bool) {
	c := g.c
	var addType func(t types.Type, viaField bool)
	switch x := in.(type) {
	case *ssa.Store:
		pt := x.Addr.Type().Underlying().(*types.Pointer).Elem()
		switch a := x.Addr.(type) {
		case *ssa.FieldAddr:
			spt := a.X.Type().Underlying().(*types.Pointer).Elem()
			st, name, ok := c.structOf(spt)
			if ok {
				f := st.Field(a.Field)
				if !isStructType(f.Type()) && !isArrayType(f.Type()) {
					return []string{c.fieldClass(name, f)}, false
				}
			}
		case *ssa.IndexAddr:
			if !isStructType(pt) {
				return []string{c.elemClass(pt)}, false
			}
		}
		addType = func(t types.Type, _ bool) {
			if isStructType(t) {
				st, name, _ := c.structOf(t)
				for i := 0; i < st.NumFields(); i++ {
					f := st.Field(i)
					if isStructType(f.Type()) {
						addType(f.Type(), true)
					} else if isArrayType(f.Type()) {
						classes = append(classes, c.elemClass(f.Type().Underlying().(*types.Array).Elem()))
					} else {
						classes = append(classes, c.fieldClass(name, f))
					}
				}
				return
			}
			if isArrayType(t) {
				classes = append(classes, c.elemClass(t.Underlying().(*types.Array).Elem()))
				return
			}
			classes = append(classes, c.cellClass(t))
		}
		addType(pt, false)
		return classes, false
	case *ssa.MapUpdate:
		m := g.mapType(x.Map.Type())
		return []string{c.mapDomClass(m), c.mapValClass(m)}, false
	case *ssa.MakeMap:
		m := g.mapType(x.Type())
		return []string{c.mapDomClass(m), c.mapValClass(m)}, false
	case *ssa.Alloc:
		pt := x.Type().Underlying().(*types.Pointer).Elem()
		addType = func(t types.Type, _ bool) {
			if isStructType(t) {
				st, name, _ := c.structOf(t)
				for i := 0; i < st.NumFields(); i++ {
					f := st.Field(i)
					if isStructType(f.Type()) {
						addType(f.Type(), true)
					} else if isArrayType(f.Type()) {
						classes = append(classes, c.elemClass(f.Type().Underlying().(*types.Array).Elem()))
					} else {
						classes = append(classes, c.fieldClass(name, f))
					}
				}
				return
			}
			if isArrayType(t) {
				classes = append(classes, c.elemClass(t.Underlying().(*types.Array).Elem()))
				return
			}
			classes = append(classes, c.cellClass(t))
		}
		addType(pt, false)
		return classes, false
	case *ssa.MakeSlice:
		st := x.Type().Underlying().(*types.Slice)
		if !isStructType(st.Elem()) {
			return []string{c.elemClass(st.Elem())}, false
		}
		return nil, false
	case *ssa.Call:
		return g.callWrites(&x.Call)
	case *ssa.Defer:
		return g.callWrites(&x.Call)
	case *ssa.Go:
		return nil, true
	case *ssa.RunDefers:
		for _, d := range g.fn.Blocks {
			for _, i2 := range d.Instrs {
				if df, ok := i2.(*ssa.Defer); ok {
					cl, a := g.callWrites(&df.Call)
					classes = append(classes, cl...)
					all = all || a
				}
			}
		}
		return classes, all
	case *ssa.Send:
		return nil, false
	case *ssa.Select:
		return nil, true
	}
	return nil, false
}

func (g *FuncGen) callWrites(cc *ssa.CallCommon) ([]string, bool) {
	c := g.c
	if b, ok := cc.Value.(*ssa.Builtin); ok {
		switch b.Name() {
		case "append":
			st := cc.Args[0].Type().Underlying().(*types.Slice)
			if isStructType(st.Elem()) {
				// writes element structs: the field classes of the element type
				var out []string
				var add func(t types.Type, depth int)
				add = func(t types.Type, depth int) {
					est, ename, ok := c.structOf(t)
					if !ok || depth > 3 {
						return
					}
					for i := 0; i < est.NumFields(); i++ {
						f := est.Field(i)
						switch {
						case isStructType(f.Type()):
							add(f.Type(), depth+1)
						case isArrayType(f.Type()):
							out = append(out, c.elemClass(f.Type().Underlying().(*types.Array).Elem()))
						default:
							out = append(out, c.fieldClass(ename, f))
						}
					}
				}
				add(st.Elem(), 0)
				return out, false
			}
			return []string{c.elemClass(st.Elem())}, false
		case "delete", "clear":
			if m, ok := cc.Args[0].Type().Underlying().(*types.Map); ok {
				return []string{c.mapDomClass(m), c.mapValClass(m)}, false
			}
			return nil, true
		case "copy":
			if st, ok := cc.Args[0].Type().Underlying().(*types.Slice); ok && !isStructType(st.Elem()) {
				return []string{c.elemClass(st.Elem())}, false
			}
			return nil, true
		}
		return nil, false
	}
	var ct *FuncContract
	name := ""
	if cc.IsInvoke() {
		name = fmt.Sprintf("(%s).%s", types.TypeString(types.Unalias(cc.Value.Type()), nil), cc.Method.Name())
		ct = g.prog.Contracts[name]
	} else if callee := cc.StaticCallee(); callee != nil {
		name = callee.String()
		if o := callee.Origin(); o != nil {
			name = o.String()
		}
		ct = g.prog.Contracts[name]
		if ct == nil && strings.Contains(name, "[") {
			ct = g.prog.Contracts[stripTypeParams(name)]
		}
		if ct == nil {
			for _, p := range noEffectPrefixes {
				if strings.HasPrefix(name, p) {
					return nil, false
				}
			}
		}
	} else {
		// dynamic call: closures with a contract, read-only callbacks and pure function fields write nothing (more)
		if _, isParam := cc.Value.(*ssa.Parameter); isParam && g.contract != nil && g.contract.Options["readonly-callbacks"] == "true" {
			return nil, false
		}
		if _, _, ok := g.pureFuncFieldOf(cc.Value); ok {
			return nil, false
		}
	}
	if ct != nil && !ct.AssignsSet {
		// contract without an assigns clause: may write anything, also what `option stable` protects
		// (unless the caller opted into `option stable-contracted`)
		if g.contract != nil && g.contract.Options["stable-contracted"] == "true" {
			return nil, true
		}
		return append([]string{}, c.classList...), true
	}
	if ct == nil {
		return nil, true
	}
	if ct.AssignsNothing {
		return nil, false
	}
	// classes named by the assigns clause, resolved by type only
	var classes []string
	sig := cc.Signature()
	hasRecv := cc.IsInvoke() || sig.Recv() != nil
	names := g.paramNames(ct, sig, hasRecv)
	ptypes := g.paramTypes(sig, hasRecv)
	typeOf := func(n string) types.Type {
		for i, pn := range names {
			if pn == n && i < len(ptypes) {
				if ptypes[i] == nil && cc.IsInvoke() {
					return cc.Value.Type()
				}
				return ptypes[i]
			}
		}
		return nil
	}
	var calleePkg *types.Package
	if ct.Pkg != "" {
		calleePkg = g.prog.TypesPkgs[ct.Pkg]
	}
	for _, a := range ct.Assigns {
		t := g.staticTypeOf(a, typeOf, calleePkg)
		switch e := a.(type) {
		case *EField:
			bt := g.staticTypeOf(e.X, typeOf, calleePkg)
			if bt != nil {
				if cl, _, ok := g.ghostFieldClass(derefType(bt), e.Name); ok {
					classes = append(classes, cl)
					continue
				}
			}
			if bt == nil {
				return nil, true
			}
			st, sn, ok := c.structOf(derefType(bt))
			if !ok {
				return nil, true
			}
			for i := 0; i < st.NumFields(); i++ {
				f := st.Field(i)
				if e.Name == "*" || f.Name() == e.Name {
					if isStructType(f.Type()) || isArrayType(f.Type()) {
						return nil, true
					}
					classes = append(classes, c.fieldClass(sn, f))
				}
			}
		case *EIndex:
			bt := g.staticTypeOf(e.X, typeOf, calleePkg)
			if bt == nil {
				return nil, true
			}
			switch u := types.Unalias(bt).Underlying().(type) {
			case *types.Slice:
				classes = append(classes, c.elemClass(u.Elem()))
			case *types.Map:
				classes = append(classes, c.mapDomClass(u), c.mapValClass(u))
			default:
				return nil, true
			}
		case *EDeref:
			bt := g.staticTypeOf(e.X, typeOf, calleePkg)
			if bt == nil || isStructType(derefType(bt)) {
				return nil, true
			}
			classes = append(classes, c.cellClass(derefType(bt)))
		case *EIdent:
		default:
			_ = t
			return nil, true
		}
	}
	return classes, false
}

// staticTypeOf computes the Go type of a simple location expression (ident / field chain).
func (g *FuncGen) staticTypeOf(e Expr, typeOf func(string) types.Type, pkg *types.Package) types.Type {
	switch x := e.(type) {
	case *EIdent:
		return typeOf(x.Name)
	case *EField:
		bt := g.staticTypeOf(x.X, typeOf, pkg)
		if bt == nil {
			return nil
		}
		st, _, ok := g.c.structOf(derefType(bt))
		if !ok {
			return nil
		}
		for i := 0; i < st.NumFields(); i++ {
			if st.Field(i).Name() == x.Name {
				return st.Field(i).Type()
			}
		}
	case *EDeref:
		return derefType(g.staticTypeOf(x.X, typeOf, pkg))
	}
	return nil
}

// ---------- go statements (fork/join frame disjointness is checked separately) ----------

func (g *FuncGen) goStmt(x *ssa.Go) {
	g.havocAll("go statement")
}

// ---------- ghost statements at call sites ----------

var positionalName = regexp.MustCompile(`^(arg[0-9]+|res[0-9]*)$`)

func (g *FuncGen) runGhostAt(callee string, ord int, env *Env, results []Val) {
	if g.contract == nil {
		return
	}
	for gi, ga := range g.contract.Ghosts {
		if !strings.HasSuffix(callee, ga.Callee) {
			continue
		}
		if os.Getenv("GOVC_LOOPS") != "" && g.curInstr != nil {
			fmt.Fprintf(os.Stderr, "CALL %s: %s#%d at %s\n", g.fnName, ga.Callee, ord, g.prog.Fset.Position(g.curInstr.Pos()))
		}
		if ga.Ordinal != 0 {
			// the contract picks this call site by ordinal: remember how many sites carry that name (the
			// baseline keeps the count; a different count later means the ordinals may have shifted)
			if g.anchors == nil {
				g.anchors = map[string]string{}
			}
			if n, _ := strconv.Atoi(g.anchors["calls "+ga.Callee]); ord > n {
				g.anchors["calls "+ga.Callee] = fmt.Sprint(ord)
			}
		}
		if ga.Ordinal != 0 && ga.Ordinal != ord {
			continue
		}
		if g.hookMatched == nil {
			g.hookMatched = map[int]bool{}
		}
		g.hookMatched[gi] = true
		if ga.Ordinal != 0 && g.curInstr != nil {
			g.anchor(fmt.Sprintf("call %s#%d", ga.Callee, ord), g.curInstr.Pos()) // ... and the text at the chosen site
		}
		// ghost statements see the callee's parameters/results and, where not shadowed, the caller's parameters
		gst := g.cur
		if g.ghostState != nil {
			gst = g.ghostState
		}
		// old(...) always means the state just before the call, whether or not the callee has a contract
		oldSt := env.old
		if g.ghostState != nil {
			oldSt = g.ghostState
		}
		genv := &Env{g: g, vars: map[string]Val{}, cur: gst, old: oldSt, pkg: g.pkg, freshBase: g.entry}
		for k, v := range g.params {
			genv.vars[k] = v
		}
		for k, v := range env.vars {
			genv.vars[k] = v
			// the same name for different things in caller and callee: refuse rather than pick one silently
			if positionalName.MatchString(k) {
				continue
			}
			// (only when the two have different types: a receiver or argument passed straight through keeps its
			// name and its meaning, even if the caller holds it in a captured cell)
			clash := false
			if pv, isParam := g.params[k]; isParam {
				clash = pv.T != v.T && !(pv.GT != nil && v.GT != nil && types.Identical(pv.GT, v.GT))
			} else if nbs, isLocal := g.names[k]; isLocal {
				clash = true
				for _, nb := range nbs {
					lt := nb.val.Type()
					if nb.isAddr {
						lt = derefType(lt)
					}
					if v.GT != nil && types.Identical(lt, v.GT) {
						clash = false
					}
				}
			}
			if clash {
				if genv.ambig == nil {
					genv.ambig = map[string]bool{}
				}
				genv.ambig[k] = true
			} else if pv, isParam := g.params[k]; isParam {
				// same name, same type: the ghost statement is written in the CALLER's vocabulary, so the caller's
				// variable is meant (the callee's is available as argN)
				genv.vars[k] = pv
			} else if _, isLocal := g.names[k]; isLocal {
				delete(genv.vars, k) // resolved through the caller's locals below
			}
		}
		// ... and the caller's locals whose (single) definition dominates the call site
		cb := g.curBlock
		genv.look = func(name string) (Val, bool) {
			// The binding in force at the call: the LAST source-level reference to the variable (definition or
			// use - go/ssa records both) among those that every path to the call passes through.  If some
			// path passes through a later reference that binds a different value (the variable was reassigned
			// in a branch), the name is refused: the contract must capture the value in a ghost variable.
			var best *nameBinding
			curIdx := 1 << 30
			if g.curInstr != nil {
				if ix, ok := g.instrIdx[g.curInstr]; ok {
					curIdx = ix
				}
			}
			dominates := func(nb *nameBinding) bool {
				if nb.block == cb {
					return nb.idx < curIdx
				}
				return nb.block.Dominates(cb)
			}
			usable := func(nb *nameBinding) bool {
				if _, defined := g.vals[nb.val]; !defined && valueBlock(nb.val) != nil {
					return false
				}
				return true
			}
			for i := range g.names[name] {
				nb := &g.names[name][i]
				if !usable(nb) || !dominates(nb) {
					continue
				}
				if best == nil || (best.block == nb.block && best.idx < nb.idx) || (best.block != nb.block && best.block.Dominates(nb.block)) {
					best = nb
				}
			}
			if best == nil {
				return Val{}, false
			}
			if !best.isAddr {
				// A variable modified inside a loop that encloses the call has the loop-head phi as its value at
				// the top of each iteration; if the last dominating reference lies BEFORE that loop it is stale
				// (no reference between the head and the call need exist), so the phi takes its place.
				var enclosing []*loopInfo
				for _, l := range g.loops {
					if l.blocks[cb] {
						enclosing = append(enclosing, l)
					}
				}
				sort.Slice(enclosing, func(i, j int) bool { return len(enclosing[i].blocks) < len(enclosing[j].blocks) })
			findPhi:
				for _, l := range enclosing { // innermost first
					if l.blocks[best.block] {
						break // the last dominating reference is inside this loop: it is current
					}
					for _, in := range l.header.Instrs {
						if phi, ok := in.(*ssa.Phi); ok && phi.Comment == name {
							if _, defined := g.vals[phi]; defined {
								best = &nameBinding{val: phi, block: l.header, idx: -1}
							}
							break findPhi
						}
					}
				}
				anc := g.ancestorsOf(cb)
				for i := range g.names[name] {
					nb := &g.names[name][i]
					if nb == best || nb.isAddr || !anc[nb.block.Index] || dominates(nb) || nb.val == best.val {
						continue
					}
					if nb.block == cb && nb.idx >= curIdx {
						continue
					}
					if best.block == nb.block || best.block.Dominates(nb.block) {
						g.unsup("ghost statement uses %q, which is reassigned on some path to this call: capture its value in a ghost variable (stale-contract?)", name)
					}
				}
			}
			if best.isAddr {
				// address-taken local (e.g. captured by a closure): its current value is read from its cell
				pt, ok := best.val.Type().Underlying().(*types.Pointer)
				if !ok {
					return Val{}, false
				}
				return g.loadFrom(g.value(best.val), pt.Elem(), gst), true
			}
			return g.value(best.val), true
		}
		env := genv
		for _, st := range ga.Stmts {
			switch st.Kind {
			case "set":
				v := g.tr(env, st.E)
				if strings.Contains(st.Var, ".") {
					// assignment to a ghost field: obj.field = value
					le, err := ParseExpr(st.Var)
					fe, isField := le.(*EField)
					if err != nil || !isField {
						g.unsup("bad ghost assignment target %s", st.Var)
					}
					base := g.tr(env, fe.X)
					cl, gs, ok := g.ghostFieldClass(derefType(base.GT), fe.Name)
					if !ok {
						g.unsup("ghost assignment to %s: no such ghost field", st.Var)
					}
					v = g.coerceTo2(v, gs, nil)
					if v.S != gs {
						g.unsup("ghost field %s has sort %s, assigned %s", st.Var, gs, v.S)
					}
					g.heapStore(cl, base.T, v.T)
					continue
				}
				gv, declared := g.prog.Ghosts[st.Var]
				if !declared {
					g.unsup("ghost statement assigns undeclared ghost variable %s", st.Var)
				}
				gt, gs := g.specType(gv.Type, g.pkg)
				if gt != nil {
					gs = g.c.sortOf(gt)
				}
				v = g.coerceTo2(v, gs, gt)
				if v.S != gs {
					g.unsup("ghost %s has sort %s, assigned %s", st.Var, gs, v.S)
				}
				n := g.c.fresh("ghost_"+st.Var, v.S)
				g.c.assert(eq(n, v.T))
				g.cur.ghost[st.Var] = n
			case "check":
				t := g.trBool(env, st.E, "")
				g.addObl(&Obligation{Name: fmt.Sprintf("%s/call:%s@%d/check:%s", g.fnName, ga.Callee, ord, shortHash(st.Text)), Guard: g.bcond[g.curBlock], Goal: t, Kind: "call-site-check", Text: st.Text})
				// assert-then-assume: later obligations on this path may rely on the checked fact (it has its own
				// obligation), which lets a contract break a hard goal into steps
				g.c.assert(implies(g.bcond[g.curBlock], t))
			}
		}
	}
}

func shortHash(s string) string { return fmt.Sprintf("%08x", hashString(s)) }
