package main

// Loading /repo packages (working tree, build tag verif), building SSA, reading contracts.

import (
	"fmt"
	"go/ast"
	"go/token"
	"go/types"
	"os"
	"path/filepath"
	"sort"
	"strings"

	"golang.org/x/tools/go/packages"
	"golang.org/x/tools/go/ssa"
	"golang.org/x/tools/go/ssa/ssautil"
)

type Program struct {
	Fset      *token.FileSet
	Pkgs      []*packages.Package
	SSA       *ssa.Program
	SSAPkgs   map[string]*ssa.Package
	Contracts map[string]*FuncContract // key: full function name as (*ssa.Function).String() prints it
	SpecFuncs map[string]*SpecFunc
	Lemmas    []*Lemma
	Ghosts    map[string]GhostVar
	Layouts   []LayoutClause
	Files     []string // contract files read
	TypesPkgs map[string]*types.Package
	ImportAliases map[string]map[string]string // package path -> import alias -> imported path
	GhostFields   map[string]map[string]GhostField // "pkgpath.Type" -> field name -> declaration
	allFns        map[*ssa.Function]bool
	// StructCanon: position of the first field of a struct literal in a type declaration -> the name of the
	// declared type.  `type B A` (A a struct type, possibly generic) shares A's struct; heap classes of B's
	// fields are those of A, so that converting a pointer between the two views keeps its meaning.
	StructCanon map[token.Pos]string
}

// repoRoot is the tree under verification: /repo for every registered command; GOVC_REPO points the developer
// tooling (contract development on a scratch worktree) somewhere else.
var repoRoot = func() string {
	if r := os.Getenv("GOVC_REPO"); r != "" {
		return r
	}
	return "/repo"
}()

func goEnv() []string {
	env := os.Environ()
	env = append(env,
		"PATH=/opt/veriftools/go1.26.8/bin:"+os.Getenv("PATH"),
		"GOTOOLCHAIN=local", "GOFLAGS=-mod=mod", "GOPROXY=off", "GOSUMDB=off", "GOWORK=off",
		"CGO_ENABLED=0") // the repo's cgo packages (libbpf) have !cgo stubs; the C headers are not installed here
	return env
}

// LoadProgram loads the given package patterns (relative to moduleDir under /repo).
func LoadProgram(moduleDir string, patterns []string, specFiles []string) (*Program, error) {
	fset := token.NewFileSet()
	cfg := &packages.Config{
		Mode: packages.NeedName | packages.NeedFiles | packages.NeedCompiledGoFiles | packages.NeedImports |
			packages.NeedTypes | packages.NeedTypesSizes | packages.NeedSyntax | packages.NeedTypesInfo | packages.NeedModule,
		Dir:        filepath.Join(repoRoot, moduleDir),
		Fset:       fset,
		Env:        goEnv(),
		BuildFlags: []string{"-tags=verif"},
	}
	pkgs, err := packages.Load(cfg, patterns...)
	if err != nil {
		return nil, err
	}
	var errs []string
	for _, p := range pkgs {
		for _, e := range p.Errors {
			errs = append(errs, e.Error())
		}
	}
	if len(errs) > 0 {
		return nil, fmt.Errorf("package load errors:\n%s", strings.Join(errs, "\n"))
	}
	prog, ssaPkgs := ssautil.Packages(pkgs, ssa.GlobalDebug|ssa.BareInits)
	prog.Build()
	P := &Program{Fset: fset, Pkgs: pkgs, SSA: prog, SSAPkgs: map[string]*ssa.Package{}, Contracts: map[string]*FuncContract{},
		SpecFuncs: map[string]*SpecFunc{}, Ghosts: map[string]GhostVar{}, TypesPkgs: map[string]*types.Package{}, ImportAliases: map[string]map[string]string{}, GhostFields: map[string]map[string]GhostField{}}
	for i, p := range pkgs {
		if ssaPkgs[i] == nil {
			return nil, fmt.Errorf("no SSA for %s", p.PkgPath)
		}
		P.SSAPkgs[p.PkgPath] = ssaPkgs[i]
		P.TypesPkgs[p.PkgPath] = p.Types
		// import aliases used by the package's source files (specs may use the same names)
		for _, f := range p.Syntax {
			for _, is := range f.Imports {
				if is.Name == nil || is.Name.Name == "_" || is.Name.Name == "." {
					continue
				}
				path := strings.Trim(is.Path.Value, "\"")
				if P.ImportAliases[p.PkgPath] == nil {
					P.ImportAliases[p.PkgPath] = map[string]string{}
				}
				P.ImportAliases[p.PkgPath][is.Name.Name] = path
			}
		}
		// contract file
		dir := ""
		if len(p.GoFiles) > 0 {
			dir = filepath.Dir(p.GoFiles[0])
		}
		if dir == "" {
			continue
		}
		cfPath := filepath.Join(dir, "zz_verif_contracts.go")
		if _, err := os.Stat(cfPath); err == nil {
			cf, err := ParseContractFile(cfPath, true)
			if err != nil {
				return nil, err
			}
			if err := P.addContracts(cf, p.PkgPath); err != nil {
				return nil, err
			}
		}
	}
	for _, sp := range specFiles {
		cf, err := ParseContractFile(sp, false)
		if err != nil {
			return nil, err
		}
		if err := P.addContracts(cf, ""); err != nil {
			return nil, err
		}
	}
	P.allFunctions() // computed once here: later readers run concurrently
	P.StructCanon = map[token.Pos]string{}
	for _, p := range pkgs {
		for _, f := range p.Syntax {
			for _, d := range f.Decls {
				gd, ok := d.(*ast.GenDecl)
				if !ok || gd.Tok != token.TYPE {
					continue
				}
				for _, sp := range gd.Specs {
					ts := sp.(*ast.TypeSpec)
					stx, ok := ts.Type.(*ast.StructType)
					if !ok || stx.Fields == nil || len(stx.Fields.List) == 0 {
						continue
					}
					tn, ok := p.TypesInfo.Defs[ts.Name].(*types.TypeName)
					if !ok {
						continue
					}
					st, ok := tn.Type().Underlying().(*types.Struct)
					if !ok || st.NumFields() == 0 {
						continue
					}
					P.StructCanon[st.Field(0).Pos()] = p.Types.Name() + "." + tn.Name()
				}
			}
		}
	}
	return P, nil
}

func (P *Program) addContracts(cf *ContractFile, pkgPath string) error {
	P.Files = append(P.Files, cf.Path)
	for _, sf := range cf.SpecFuncs {
		if old, ok := P.SpecFuncs[sf.Name]; ok {
			return fmt.Errorf("spec func %s redefined (%s:%d and %s:%d)", sf.Name, old.File, old.Line, sf.File, sf.Line)
		}
		sf.Pkg = pkgPath
		P.SpecFuncs[sf.Name] = sf
	}
	for _, l := range cf.Lemmas {
		l.Pkg = pkgPath
		P.Lemmas = append(P.Lemmas, l)
	}
	for _, g := range cf.Ghosts {
		P.Ghosts[g.Name] = g
	}
	for _, gf := range cf.GhostFields {
		gf.Pkg = pkgPath
		key := pkgPath + "." + gf.Struct
		if strings.Contains(gf.Struct, ".") || pkgPath == "" {
			key = gf.Struct // fully qualified (spec files)
		}
		if P.GhostFields[key] == nil {
			P.GhostFields[key] = map[string]GhostField{}
		}
		P.GhostFields[key][gf.Name] = gf
	}
	for _, f := range cf.Funcs {
		key := f.Name
		if pkgPath != "" {
			key = qualifyFuncName(f.Name, pkgPath)
		}
		if _, ok := P.Contracts[key]; ok {
			return fmt.Errorf("duplicate contract for %s", key)
		}
		f.Pkg = pkgPath
		P.Contracts[key] = f
	}
	for _, lc := range cf.Layouts {
		lc.Pkg = pkgPath
		P.Layouts = append(P.Layouts, lc)
	}
	return nil
}

// qualifyFuncName turns "(*T).M" / "T.M" / "F" into the String() form of ssa.Function.
func qualifyFuncName(name, pkgPath string) string {
	if strings.HasPrefix(name, "(*") {
		return "(*" + pkgPath + "." + name[2:]
	}
	if strings.HasPrefix(name, "(") {
		return "(" + pkgPath + "." + name[1:]
	}
	return pkgPath + "." + name
}

// allFunctions is ssautil.AllFunctions plus the methods of generic named types of the loaded packages (which
// AllFunctions omits because parameterized types have no runtime method sets) and their closures.
func (P *Program) allFunctions() map[*ssa.Function]bool {
	if P.allFns != nil {
		return P.allFns
	}
	all := ssautil.AllFunctions(P.SSA)
	var add func(fn *ssa.Function)
	add = func(fn *ssa.Function) {
		if fn == nil || all[fn] {
			return
		}
		all[fn] = true
		for _, a := range fn.AnonFuncs {
			add(a)
		}
	}
	for _, tp := range P.TypesPkgs {
		sc := tp.Scope()
		for _, n := range sc.Names() {
			tn, ok := sc.Lookup(n).(*types.TypeName)
			if !ok {
				continue
			}
			named, ok := tn.Type().(*types.Named)
			if !ok || named.TypeParams().Len() == 0 {
				continue
			}
			for i := 0; i < named.NumMethods(); i++ {
				add(P.SSA.FuncValue(named.Method(i)))
			}
		}
	}
	P.allFns = all
	return all
}

// FindFunc finds an SSA function by its full name among loaded packages (including methods and anonymous functions).
func (P *Program) FindFunc(full string) *ssa.Function {
	for fn := range P.allFunctions() {
		if fn.String() == full {
			return fn
		}
	}
	// generic functions and methods of generic types: contracts name them without the type parameter list
	// and are checked on the generic body (type parameters become uninterpreted sorts)
	for fn := range P.allFunctions() {
		if fn.Origin() == nil && len(fn.TypeArgs()) == 0 && stripTypeParams(fn.String()) == full && fn.String() != full {
			return fn
		}
	}
	return nil
}

// stripTypeParams removes "[K, V]"-style type parameter lists that follow an identifier.
func stripTypeParams(s string) string {
	var b strings.Builder
	depth := 0
	for i := 0; i < len(s); i++ {
		ch := s[i]
		if ch == '[' && i > 0 && (isIdentByte(s[i-1])) && i+1 < len(s) && s[i+1] != ']' {
			depth++
			continue
		}
		if depth > 0 {
			if ch == '[' {
				depth++
			} else if ch == ']' {
				depth--
			}
			continue
		}
		b.WriteByte(ch)
	}
	return b.String()
}

func isIdentByte(c byte) bool {
	return c == '_' || (c >= '0' && c <= '9') || (c >= 'a' && c <= 'z') || (c >= 'A' && c <= 'Z')
}

func (P *Program) AllSourceFuncs() []*ssa.Function {
	var out []*ssa.Function
	for fn := range P.allFunctions() {
		if fn.Blocks != nil && fn.Pkg != nil && P.SSAPkgs[fn.Pkg.Pkg.Path()] == fn.Pkg {
			out = append(out, fn)
		}
	}
	sort.Slice(out, func(i, j int) bool { return out[i].String() < out[j].String() })
	return out
}

// contractFor returns the contract attached to a function (nil if none).
func (P *Program) contractFor(fn *ssa.Function) *FuncContract {
	if fn == nil {
		return nil
	}
	if o := fn.Origin(); o != nil {
		fn = o
	}
	if ct, ok := P.Contracts[fn.String()]; ok {
		return ct
	}
	if fn.TypeParams().Len() > 0 || strings.Contains(fn.String(), "[") {
		return P.Contracts[stripTypeParams(fn.String())]
	}
	return nil
}
