package main

import (
	"go/token"
	"strings"
	"sync"

	"golang.org/x/tools/go/ssa"
)

// Inferred write-purity of callees that have no contract.
//
// A refactor that moves a few lines of a function under contract into a new helper (or reorders a call to an
// existing small helper) must not make obligations fail merely because "an unknown call may write anything".
// For a static callee whose body is available the engine therefore checks - syntactically, conservatively - that
// the body cannot write any memory visible to its caller:
//   - every store goes to (a field/array slot of) a variable or object the callee itself allocated;
//   - no map update, channel operation, go, defer, append/copy/delete/clear/close;
//   - every call is static and goes to a function that is itself write-pure by this analysis, by a contract with
//     `assigns nothing`, or by the list of effect-free library calls; no interface or function-value calls.
// Such a callee leaves the caller's heap unchanged; its results stay arbitrary.  Anything else is an unknown call.
var (
	pureMu   sync.Mutex
	pureMemo = map[*ssa.Function]int{} // 1 pure, 2 impure, 3 in progress
)

func (g *FuncGen) inferredPure(fn *ssa.Function) bool {
	pureMu.Lock()
	defer pureMu.Unlock()
	return g.pureRec(fn, 0)
}

func (g *FuncGen) pureRec(fn *ssa.Function, depth int) bool {
	if fn == nil || len(fn.Blocks) == 0 || depth > 6 {
		return false
	}
	switch pureMemo[fn] {
	case 1:
		return true
	case 2, 3:
		return false // known impure, or recursion
	}
	pureMemo[fn] = 3
	ok := g.pureBody(fn, depth)
	if ok {
		pureMemo[fn] = 1
	} else {
		pureMemo[fn] = 2
	}
	return ok
}

// localRoot: the address denotes (part of) a variable/object allocated by this very function
func localRoot(v ssa.Value) bool {
	for i := 0; i < 8; i++ {
		switch x := v.(type) {
		case *ssa.Alloc:
			return true // the callee's own variable or its own new object: invisible to the caller until returned
		case *ssa.FieldAddr:
			v = x.X
		case *ssa.IndexAddr:
			// only arrays reached through a pointer (a local array variable), never slices
			if !isPtrToArray(x.X) {
				return false
			}
			v = x.X
		default:
			return false
		}
	}
	return false
}

func isPtrToArray(v ssa.Value) bool {
	t := derefType(v.Type())
	if t == v.Type() {
		return false
	}
	return isArrayType(t)
}

func (g *FuncGen) pureBody(fn *ssa.Function, depth int) bool {
	for _, b := range fn.Blocks {
		for _, in := range b.Instrs {
			switch x := in.(type) {
			case *ssa.Store:
				if !localRoot(x.Addr) {
					return false
				}
			case *ssa.MapUpdate, *ssa.Send, *ssa.Go, *ssa.Defer, *ssa.Select:
				return false
			case *ssa.UnOp:
				if x.Op == token.ARROW {
					return false
				}
			case *ssa.Call:
				if !g.pureCall(&x.Call, depth) {
					return false
				}
			}
		}
	}
	return true
}

func (g *FuncGen) pureCall(cc *ssa.CallCommon, depth int) bool {
	if cc.IsInvoke() {
		return false
	}
	switch v := cc.Value.(type) {
	case *ssa.Builtin:
		switch v.Name() {
		case "len", "cap", "min", "max", "real", "imag", "complex", "ssa:wrapnilchk", "print", "println", "panic", "new", "make":
			return true
		}
		return false
	case *ssa.Function:
		name := v.String()
		if o := v.Origin(); o != nil {
			name = o.String()
		}
		ct := g.prog.Contracts[name]
		if ct == nil && strings.Contains(name, "[") {
			ct = g.prog.Contracts[stripTypeParams(name)]
		}
		if ct != nil {
			return ct.AssignsSet && ct.AssignsNothing
		}
		for _, p := range noEffectPrefixes {
			if strings.HasPrefix(name, p) {
				return true
			}
		}
		return g.pureRec(v, depth+1)
	}
	return false
}
