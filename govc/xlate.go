package main

// Translation of spec expressions to SMT terms in an environment (variables + heap state).

import (
	"fmt"
	"go/token"
	"go/types"
	"math/big"
	"sort"
	"strconv"
	"strings"
)

func (g *FuncGen) trBool(env *Env, e Expr, label string) string {
	v := g.tr(env, e)
	if v.S != SBool {
		g.unsup("spec expression %s is not boolean (sort %s)", e, v.S)
	}
	return v.T
}

// specSort: sort for a spec-level type text.
func (g *FuncGen) specSort(ty string) Sort {
	t, s := g.specType(ty, g.pkg)
	if t != nil {
		return g.c.sortOf(t)
	}
	return s
}

// specType resolves a type text to a Go type (or, for spec-only types, a sort).
func (g *FuncGen) specType(ty string, pkg *types.Package) (types.Type, Sort) {
	ty = strings.TrimSpace(ty)
	switch {
	case strings.HasPrefix(ty, "*"):
		t, _ := g.specType(ty[1:], pkg)
		if t == nil {
			g.unsup("spec type %s", ty)
		}
		return types.NewPointer(t), ""
	case strings.HasPrefix(ty, "[]"):
		t, _ := g.specType(ty[2:], pkg)
		if t == nil {
			g.unsup("spec type %s", ty)
		}
		return types.NewSlice(t), ""
	case strings.HasPrefix(ty, "set["):
		inner := ty[4 : len(ty)-1]
		t, s := g.specType(inner, pkg)
		if t != nil {
			s = g.c.sortOf(t)
		}
		return nil, fmt.Sprintf("(Array %s Bool)", s)
	case strings.HasPrefix(ty, "map["):
		depth := 0
		for i := 3; i < len(ty); i++ {
			if ty[i] == '[' {
				depth++
			} else if ty[i] == ']' {
				depth--
				if depth == 0 {
					k, _ := g.specType(ty[4:i], pkg)
					v, _ := g.specType(ty[i+1:], pkg)
					if k == nil || v == nil {
						g.unsup("spec type %s", ty)
					}
					return types.NewMap(k, v), ""
				}
			}
		}
	case strings.HasPrefix(ty, "["):
		k := strings.Index(ty, "]")
		n, err := strconv.Atoi(ty[1:k])
		if err != nil {
			g.unsup("spec type %s", ty)
		}
		t, _ := g.specType(ty[k+1:], pkg)
		return types.NewArray(t, int64(n)), ""
	}
	switch ty {
	case "mathint":
		return nil, SInt
	case "ref":
		return nil, SInt
	case "any":
		return types.NewInterfaceType(nil, nil), ""
	case "struct{}":
		return types.NewStruct(nil, nil), ""
	}
	if obj := types.Universe.Lookup(ty); obj != nil {
		if tn, ok := obj.(*types.TypeName); ok {
			return tn.Type(), ""
		}
	}
	if k := strings.LastIndex(ty, "."); k >= 0 {
		pn, tn := ty[:k], ty[k+1:]
		// search imports of pkg and loaded packages by name or path
		var cands []*types.Package
		if pkg != nil {
			cands = append(cands, pkg.Imports()...)
		}
		for _, p := range g.prog.TypesPkgs {
			cands = append(cands, p)
			cands = append(cands, p.Imports()...)
		}
		// ... and what those import (std spec files mention e.g. hash.Hash, which callers import indirectly)
		seenPkg := map[*types.Package]bool{}
		for _, p := range cands {
			seenPkg[p] = true
		}
		for depth := 0; depth < 2; depth++ {
			for _, p := range append([]*types.Package(nil), cands...) {
				for _, q := range p.Imports() {
					if !seenPkg[q] {
						seenPkg[q] = true
						cands = append(cands, q)
					}
				}
			}
		}
		want := g.aliasTargets(pn, pkg)
		for _, p := range cands {
			if p.Name() == pn || p.Path() == pn || want[p.Path()] {
				if obj := p.Scope().Lookup(tn); obj != nil {
					if t, ok := obj.(*types.TypeName); ok {
						return t.Type(), ""
					}
				}
			}
		}
		g.unsup("spec type %s not found", ty)
	}
	if pkg != nil {
		if obj := pkg.Scope().Lookup(ty); obj != nil {
			if tn, ok := obj.(*types.TypeName); ok {
				return tn.Type(), ""
			}
		}
	}
	for _, p := range g.prog.TypesPkgs {
		if obj := p.Scope().Lookup(ty); obj != nil {
			if tn, ok := obj.(*types.TypeName); ok {
				return tn.Type(), ""
			}
		}
	}
	// type parameters of the function under verification
	if g.fn != nil {
		if tps := g.fn.TypeParams(); tps != nil {
			for i := 0; i < tps.Len(); i++ {
				if tps.At(i).Obj().Name() == ty {
					return tps.At(i), ""
				}
			}
		}
		if recv := g.fn.Signature.Recv(); recv != nil {
			if n, ok := derefType(recv.Type()).(*types.Named); ok {
				tps := n.TypeParams()
				for i := 0; i < tps.Len(); i++ {
					if tps.At(i).Obj().Name() == ty {
						return tps.At(i), ""
					}
				}
				targs := n.TypeArgs()
				for i := 0; i < targs.Len(); i++ {
					if tp, ok := targs.At(i).(*types.TypeParam); ok && tp.Obj().Name() == ty {
						return tp, ""
					}
				}
			}
		}
	}
	g.unsup("spec type %s not found", ty)
	return nil, ""
}

// aliasTargets: import paths that the alias name stands for (in pkg's source files, else in any loaded package).
func (g *FuncGen) aliasTargets(alias string, pkg *types.Package) map[string]bool {
	out := map[string]bool{}
	if pkg != nil {
		if p, ok := g.prog.ImportAliases[pkg.Path()][alias]; ok {
			out[p] = true
			return out
		}
	}
	for _, m := range g.prog.ImportAliases {
		if p, ok := m[alias]; ok {
			out[p] = true
		}
	}
	return out
}

func (g *FuncGen) lookupName(env *Env, name string) (Val, bool) {
	if env.ambig[name] {
		g.unsup("ghost statement uses %q, which names both a parameter of the callee and a variable of the caller: use argN for the callee's, or capture the caller's value in a ghost variable first", name)
	}
	if v, ok := env.vars[name]; ok {
		return v, true
	}
	if env.look != nil {
		if v, ok := env.look(name); ok {
			return v, true
		}
	}
	if _, ok := g.prog.Ghosts[name]; ok {
		st := env.cur
		t, s := g.specType(g.prog.Ghosts[name].Type, env.pkg)
		srt := s
		if t != nil {
			srt = g.c.sortOf(t)
		}
		return Val{T: st.ghost[name], S: srt, GT: t}, true
	}
	// package-level constants
	pkgs := []*types.Package{env.pkg}
	for _, p := range g.prog.TypesPkgs {
		pkgs = append(pkgs, p)
	}
	for _, p := range pkgs {
		if p == nil {
			continue
		}
		if obj := p.Scope().Lookup(name); obj != nil {
			if cst, ok := obj.(*types.Const); ok {
				return g.constObj(cst), true
			}
			// package-level variable of a scalar/reference type: its current value (read from its cell)
			if gv, ok := obj.(*types.Var); ok && !isStructType(gv.Type()) && !isArrayType(gv.Type()) {
				c := g.c
				ref := c.constant("glob_"+sanitize(p.Name()+"."+name), SInt)
				cl := c.cellClass(gv.Type())
				return Val{T: fmt.Sprintf("(select %s %s)", g.heapOf(env.cur, cl), ref), S: c.sortOf(gv.Type()), GT: gv.Type()}, true
			}
		}
	}
	return Val{}, false
}

func (g *FuncGen) constObj(cst *types.Const) Val {
	t := cst.Type()
	c := g.c
	if ii, ok := basicIntInfo(t); ok {
		bi, _ := new(big.Int).SetString(cst.Val().ExactString(), 10)
		if bi != nil {
			v := Val{T: c.intLit(bi, ii.width), S: c.intSort(ii.width), GT: t}
			if b, ok := t.Underlying().(*types.Basic); ok && b.Info()&types.IsUntyped != 0 {
				v.GT = nil
				v.S = "UNTYPED:" + bi.String()
			}
			return v
		}
	}
	if isString(t) {
		s, _ := strconv.Unquote(cst.Val().ExactString())
		return Val{T: smtString(s), S: SString, GT: types.Typ[types.String]}
	}
	if isBool(t) {
		return Val{T: cst.Val().ExactString(), S: SBool, GT: types.Typ[types.Bool]}
	}
	g.unsup("constant %s of type %s in spec", cst.Name(), t)
	return Val{}
}

// untyped integer literal handling: S == "UNTYPED:<n>"
func isUntyped(v Val) bool { return strings.HasPrefix(v.S, "UNTYPED:") }

func (g *FuncGen) coerce(v Val, to Val) Val {
	if !isUntyped(v) {
		return v
	}
	n, _ := new(big.Int).SetString(v.S[len("UNTYPED:"):], 10)
	if to.S == SInt {
		return Val{T: mathLit(n), S: SInt, GT: to.GT}
	}
	if isUntyped(to) || to.GT == nil {
		if strings.HasPrefix(to.S, "(_ BitVec ") {
			var w int
			fmt.Sscanf(to.S, "(_ BitVec %d)", &w)
			return Val{T: g.bvLit(n, w), S: to.S, GT: to.GT}
		}
		return Val{T: g.c.intLit(n, 64), S: g.c.intSort(64), GT: types.Typ[types.Int]}
	}
	if ii, ok := basicIntInfo(to.GT); ok {
		return Val{T: g.c.intLit(n, ii.width), S: g.c.intSort(ii.width), GT: to.GT}
	}
	if isFloat(to.GT) {
		f, _ := new(big.Float).SetInt(n).Float64()
		return Val{T: g.floatLit(f, to.S), S: to.S, GT: to.GT}
	}
	g.unsup("cannot use integer literal %s as %s", n, to.S)
	return Val{}
}

func mathLit(n *big.Int) string {
	if n.Sign() < 0 {
		return "(- " + new(big.Int).Neg(n).String() + ")"
	}
	return n.String()
}

func (g *FuncGen) bvLit(n *big.Int, w int) string {
	m := new(big.Int).Lsh(big.NewInt(1), uint(w))
	return fmt.Sprintf("(_ bv%s %d)", new(big.Int).Mod(n, m).String(), w)
}

func (g *FuncGen) defaultInt(v Val) Val {
	if isUntyped(v) {
		return g.coerce(v, Val{S: g.c.intSort(64), GT: types.Typ[types.Int]})
	}
	return v
}

func (g *FuncGen) tr(env *Env, e Expr) Val {
	c := g.c
	switch x := e.(type) {
	case *EInt:
		n, ok := new(big.Int).SetString(x.Text, 0)
		if !ok {
			g.unsup("bad integer literal %s", x.Text)
		}
		return Val{S: "UNTYPED:" + n.String()}
	case *EStr:
		c.useStrings = true
		return Val{T: smtString(x.Val), S: SString, GT: types.Typ[types.String]}
	case *EBool:
		if x.Val {
			return Val{T: "true", S: SBool, GT: types.Typ[types.Bool]}
		}
		return Val{T: "false", S: SBool, GT: types.Typ[types.Bool]}
	case *ENil:
		return Val{S: "NIL"}
	case *EIdent:
		v, ok := g.lookupName(env, x.Name)
		if !ok {
			g.unsup("unknown name %q in spec (stale-contract?)", x.Name)
		}
		return v
	case *EOld:
		n := *env
		n.cur = env.old
		if x.Entry && g.entry != nil {
			n.cur = g.entry
		}
		n.inOld = true
		return g.tr(&n, x.X)
	case *EUnary:
		v := g.tr(env, x.X)
		switch x.Op {
		case "!":
			return Val{T: not(v.T), S: SBool, GT: types.Typ[types.Bool]}
		case "-":
			if isUntyped(v) {
				n, _ := new(big.Int).SetString(v.S[len("UNTYPED:"):], 10)
				return Val{S: "UNTYPED:" + new(big.Int).Neg(n).String()}
			}
			if v.S == SInt {
				return Val{T: "(- " + v.T + ")", S: SInt, GT: v.GT}
			}
			return Val{T: "(bvneg " + v.T + ")", S: v.S, GT: v.GT}
		case "^":
			v = g.defaultInt(v)
			return Val{T: "(bvnot " + v.T + ")", S: v.S, GT: v.GT}
		}
	case *EDeref:
		v := g.tr(env, x.X)
		pt := derefType(v.GT)
		return g.loadFrom(v, pt, env.cur)
	case *EBinary:
		return g.trBinary(env, x)
	case *ECond:
		cnd := g.trBool(env, x.C, "")
		a, b := g.tr(env, x.A), g.tr(env, x.B)
		a, b = g.unify(a, b)
		return Val{T: ite(cnd, a.T, b.T), S: a.S, GT: a.GT}
	case *EQuant:
		return g.trQuant(env, x)
	case *EField:
		return g.trField(env, x)
	case *EIndex:
		return g.trIndex(env, x)
	case *ESlice:
		return g.trSlice(env, x)
	case *ECall:
		return g.trCall(env, x)
	}
	g.unsup("spec expression %s", e)
	return Val{}
}

// unify coerces literals / nil so that both operands have the same sort.
func (g *FuncGen) unify(a, b Val) (Val, Val) {
	if isUntyped(a) && isUntyped(b) {
		return g.defaultInt(a), g.defaultInt(b)
	}
	if isUntyped(a) {
		a = g.coerce(a, b)
	}
	if isUntyped(b) {
		b = g.coerce(b, a)
	}
	if a.S == "NIL" && b.S == "NIL" {
		return Val{T: "0", S: SInt}, Val{T: "0", S: SInt}
	}
	if a.S == "NIL" {
		a = g.nilOf(b)
	}
	if b.S == "NIL" {
		b = g.nilOf(a)
	}
	return a, b
}

func (g *FuncGen) nilOf(like Val) Val {
	switch like.S {
	case SIface:
		return Val{T: "(mk_iface 0 0)", S: SIface, GT: like.GT}
	case SSlice:
		z := g.c.intLit64(0, 64)
		return Val{T: fmt.Sprintf("(mk_slice 0 %s %s %s)", z, z, z), S: SSlice, GT: like.GT}
	case SInt:
		return Val{T: "0", S: SInt, GT: like.GT}
	}
	g.unsup("nil compared with sort %s", like.S)
	return Val{}
}

func (g *FuncGen) trBinary(env *Env, x *EBinary) Val {
	boolT := types.Typ[types.Bool]
	switch x.Op {
	case "&&":
		return Val{T: and(g.trBool(env, x.X, ""), g.trBool(env, x.Y, "")), S: SBool, GT: boolT}
	case "||":
		return Val{T: or(g.trBool(env, x.X, ""), g.trBool(env, x.Y, "")), S: SBool, GT: boolT}
	case "==>":
		return Val{T: implies(g.trBool(env, x.X, ""), g.trBool(env, x.Y, "")), S: SBool, GT: boolT}
	case "<==>":
		return Val{T: eq(g.trBool(env, x.X, ""), g.trBool(env, x.Y, "")), S: SBool, GT: boolT}
	case "in":
		k := g.tr(env, x.X)
		m := g.tr(env, x.Y)
		if mt, ok := mapOf(m.GT); ok {
			k = g.coerceTo(k, mt.Key())
			return Val{T: and(not(eq(m.T, "0")), fmt.Sprintf("(select %s %s)", g.mapDom(env.cur, mt, m.T), k.T)), S: SBool, GT: boolT}
		}
		if strings.HasPrefix(m.S, "(Array ") && strings.HasSuffix(m.S, " Bool)") {
			k = g.defaultInt(k)
			return Val{T: fmt.Sprintf("(select %s %s)", m.T, k.T), S: SBool, GT: boolT}
		}
		g.unsup("'in' on %s", m.S)
	}
	a, b := g.tr(env, x.X), g.tr(env, x.Y)
	switch x.Op {
	case "<<", ">>":
		a = g.defaultInt(a)
		b = g.defaultInt(b)
		if a.S == SInt {
			g.unsup("shift on mathematical integers")
		}
		ai, _ := basicIntInfo(a.GT)
		if a.GT == nil {
			fmt.Sscanf(a.S, "(_ BitVec %d)", &ai.width)
		}
		op := token.SHL
		if x.Op == ">>" {
			op = token.SHR
		}
		bt := b.GT
		if bt == nil {
			bt = types.Typ[types.Uint64]
		}
		return Val{T: g.shift(op, a, b, ai, bt, nil), S: a.S, GT: a.GT}
	}
	a, b = g.unify(a, b)
	if a.S != b.S {
		g.unsup("operands of %s have different sorts in %s: %s vs %s", x.Op, x, a.S, b.S)
	}
	gt := a.GT
	if gt == nil {
		gt = b.GT
	}
	var op token.Token
	switch x.Op {
	case "==":
		if gt != nil && isFloat(gt) {
			return Val{T: fmt.Sprintf("(fp.eq %s %s)", a.T, b.T), S: SBool, GT: boolT}
		}
		return Val{T: g.valuesEqual(a.T, b.T, gt), S: SBool, GT: boolT}
	case "!=":
		if gt != nil && isFloat(gt) {
			return Val{T: not(fmt.Sprintf("(fp.eq %s %s)", a.T, b.T)), S: SBool, GT: boolT}
		}
		return Val{T: not(g.valuesEqual(a.T, b.T, gt)), S: SBool, GT: boolT}
	case "<":
		op = token.LSS
	case "<=":
		op = token.LEQ
	case ">":
		op = token.GTR
	case ">=":
		op = token.GEQ
	case "+":
		op = token.ADD
	case "-":
		op = token.SUB
	case "*":
		op = token.MUL
	case "/":
		op = token.QUO
	case "%":
		op = token.REM
	case "&":
		op = token.AND
	case "|":
		op = token.OR
	case "^":
		op = token.XOR
	case "&^":
		op = token.AND_NOT
	default:
		g.unsup("operator %s", x.Op)
	}
	if a.S == SInt && !(gt != nil && g.c.mathInts) {
		// pure mathematical integers (spec-only or refs)
		return g.mathOp(op, a, b)
	}
	if gt == nil {
		// bitvector without Go type: treat as signed 64 / by width
		var w int
		if _, err := fmt.Sscanf(a.S, "(_ BitVec %d)", &w); err == nil {
			gt = map[int]types.Type{8: types.Typ[types.Uint8], 16: types.Typ[types.Uint16], 32: types.Typ[types.Uint32], 64: types.Typ[types.Int]}[w]
		}
		if gt == nil {
			g.unsup("cannot type operands of %s in %s", x.Op, x)
		}
	}
	if folded, ok := foldLiteralCmp(op, a.T, b.T, g.isSigned(gt)); ok {
		return Val{T: folded, S: SBool, GT: boolT}
	}
	saved := g.contract
	r := g.binopSpec(op, a, b, gt)
	g.contract = saved
	if r.S == SBool {
		r.GT = boolT
	} else {
		r.GT = gt
	}
	return r
}

// foldLiteralCmp evaluates a comparison of two bitvector literals (keeps expanded quantifier instances small).
func foldLiteralCmp(op token.Token, a, b string, signed bool) (string, bool) {
	switch op {
	case token.LSS, token.LEQ, token.GTR, token.GEQ:
	default:
		return "", false
	}
	parse := func(s string) (*big.Int, int, bool) {
		if !strings.HasPrefix(s, "(_ bv") {
			return nil, 0, false
		}
		var v string
		var w int
		if _, err := fmt.Sscanf(s, "(_ bv%s %d)", &v, &w); err != nil {
			return nil, 0, false
		}
		n, ok := new(big.Int).SetString(v, 10)
		return n, w, ok
	}
	x, wx, ok1 := parse(a)
	y, wy, ok2 := parse(b)
	if !ok1 || !ok2 || wx != wy {
		return "", false
	}
	if signed {
		half := new(big.Int).Lsh(big.NewInt(1), uint(wx-1))
		full := new(big.Int).Lsh(big.NewInt(1), uint(wx))
		if x.Cmp(half) >= 0 {
			x = new(big.Int).Sub(x, full)
		}
		if y.Cmp(half) >= 0 {
			y = new(big.Int).Sub(y, full)
		}
	}
	c := x.Cmp(y)
	var r bool
	switch op {
	case token.LSS:
		r = c < 0
	case token.LEQ:
		r = c <= 0
	case token.GTR:
		r = c > 0
	case token.GEQ:
		r = c >= 0
	}
	if r {
		return "true", true
	}
	return "false", true
}

// binopSpec: like binop but never emits safety obligations and never checks overflow (spec arithmetic wraps in bv mode, is exact in math mode).
func (g *FuncGen) binopSpec(op token.Token, a, b Val, t types.Type) Val {
	if g.c.mathInts {
		if _, ok := basicIntInfo(t); ok {
			return g.mathOp(op, a, b)
		}
	}
	return g.binop(op, a, b, t, t, nil)
}

func (g *FuncGen) mathOp(op token.Token, a, b Val) Val {
	m := map[token.Token]string{token.ADD: "+", token.SUB: "-", token.MUL: "*", token.LSS: "<", token.LEQ: "<=", token.GTR: ">", token.GEQ: ">="}
	if s, ok := m[op]; ok {
		srt := SInt
		if op == token.LSS || op == token.LEQ || op == token.GTR || op == token.GEQ {
			srt = SBool
		}
		return Val{T: fmt.Sprintf("(%s %s %s)", s, a.T, b.T), S: srt, GT: a.GT}
	}
	switch op {
	case token.QUO:
		if a.GT != nil {
			// Go integer division truncates toward zero
			return Val{T: fmt.Sprintf("(ite (>= %s 0) (div %s %s) (- (div (- %s) %s)))", a.T, a.T, b.T, a.T, b.T), S: SInt, GT: a.GT}
		}
		return Val{T: fmt.Sprintf("(div %s %s)", a.T, b.T), S: SInt, GT: a.GT}
	case token.REM:
		if a.GT != nil {
			// Go integer: remainder has the sign of the dividend
			return Val{T: fmt.Sprintf("(ite (>= %s 0) (mod %s %s) (- (mod (- %s) %s)))", a.T, a.T, b.T, a.T, b.T), S: SInt, GT: a.GT}
		}
		return Val{T: fmt.Sprintf("(mod %s %s)", a.T, b.T), S: SInt, GT: a.GT}
	}
	g.unsup("operator %s on mathematical integers", op)
	return Val{}
}

func mapOf(t types.Type) (*types.Map, bool) {
	if t == nil {
		return nil, false
	}
	m, ok := types.Unalias(t).Underlying().(*types.Map)
	return m, ok
}

func (g *FuncGen) coerceTo(v Val, t types.Type) Val {
	if isUntyped(v) {
		return g.coerce(v, Val{S: g.c.sortOf(t), GT: t})
	}
	if v.S == "NIL" {
		return g.nilOf(Val{S: g.c.sortOf(t), GT: t})
	}
	return v
}

func (g *FuncGen) trQuant(env *Env, q *EQuant) Val {
	c := g.c
	// constant-range binders are expanded
	for i, b := range q.Vars {
		if b.Lo != nil {
			lo := g.constInt(env, b.Lo)
			hi := g.constInt(env, b.Hi)
			t, s := g.specType(b.Type, env.pkg)
			rest := &EQuant{Forall: q.Forall, Vars: append(append([]Binder{}, q.Vars[:i]...), q.Vars[i+1:]...), Body: q.Body}
			var parts []string
			for k := lo; k < hi; k++ {
				var v Val
				if t != nil {
					ii, _ := basicIntInfo(t)
					v = Val{T: c.intLit64(k, ii.width), S: c.sortOf(t), GT: t}
				} else {
					v = Val{T: fmt.Sprint(k), S: s}
				}
				e2 := env.with(b.Name, v)
				if len(rest.Vars) == 0 {
					parts = append(parts, g.trBool(e2, q.Body, ""))
				} else {
					parts = append(parts, g.trQuant(e2, rest).T)
				}
			}
			if q.Forall {
				return Val{T: and(parts...), S: SBool, GT: types.Typ[types.Bool]}
			}
			return Val{T: or(parts...), S: SBool, GT: types.Typ[types.Bool]}
		}
	}
	e2 := env
	var binders []string
	var guards []string
	for _, b := range q.Vars {
		t, s := g.specType(b.Type, env.pkg)
		if t != nil {
			s = c.sortOf(t)
		}
		name := "q_" + sanitize(b.Name)
		binders = append(binders, fmt.Sprintf("(%s %s)", name, s))
		bound := Val{T: name, S: s, GT: t}
		// option absindex: a variable that indexes a slice ranges over the ABSOLUTE positions in the backing
		// array instead (i := x - off, a bijection), so that element terms are data[x] whatever arithmetic shape
		// the index has at the places the quantifier must be instantiated (E-matching is syntactic).
		if g.contract != nil && g.contract.Options["absindex"] == "true" && s == c.intSort(64) && t != nil {
			names := map[string]bool{}
			for _, b2 := range q.Vars {
				names[b2.Name] = true
			}
			if base := findIndexBase(q.Body, b.Name, names); base != nil {
				if sv := g.tr(env, base); sv.S == SSlice {
					bound.T = g.sub64(name, fmt.Sprintf("(s_off %s)", sv.T))
				}
			}
		}
		e2 = e2.with(b.Name, bound)
		if t != nil && c.mathInts {
			if ii, ok := basicIntInfo(t); ok {
				lo, hi := intRange(ii)
				guards = append(guards, fmt.Sprintf("(<= %s %s)", lo, bound.T), fmt.Sprintf("(<= %s %s)", bound.T, hi))
			}
		}
	}
	c.useQuant = true
	body := g.trBool(e2, q.Body, "")
	kw := "forall"
	if q.Forall {
		body = implies(and(guards...), body)
	} else {
		kw = "exists"
		body = and(append(guards, body)...)
	}
	return Val{T: fmt.Sprintf("(%s (%s) %s)", kw, strings.Join(binders, " "), body), S: SBool, GT: types.Typ[types.Bool]}
}

// findIndexBase: the slice expression X of the first X[v] in e (outside old(...)) that mentions no bound variable.
func findIndexBase(e Expr, v string, bound map[string]bool) Expr {
	var mentions func(e Expr) bool
	mentions = func(e Expr) bool {
		switch x := e.(type) {
		case *EIdent:
			return bound[x.Name]
		case *EUnary:
			return mentions(x.X)
		case *EBinary:
			return mentions(x.X) || mentions(x.Y)
		case *ECall:
			for _, a := range x.Args {
				if mentions(a) {
					return true
				}
			}
			if k := strings.Index(x.Fun, "."); k > 0 && bound[x.Fun[:k]] {
				return true
			}
		case *EField:
			return mentions(x.X)
		case *EIndex:
			return mentions(x.X) || mentions(x.I)
		case *ESlice:
			return mentions(x.X) || (x.Lo != nil && mentions(x.Lo)) || (x.Hi != nil && mentions(x.Hi))
		case *EOld:
			return mentions(x.X)
		case *ECond:
			return mentions(x.C) || mentions(x.A) || mentions(x.B)
		case *EQuant:
			return true // conservative
		case *EDeref:
			return mentions(x.X)
		}
		return false
	}
	var find func(e Expr) Expr
	find = func(e Expr) Expr {
		switch x := e.(type) {
		case *EUnary:
			return find(x.X)
		case *EBinary:
			if r := find(x.X); r != nil {
				return r
			}
			return find(x.Y)
		case *ECall:
			for _, a := range x.Args {
				if r := find(a); r != nil {
					return r
				}
			}
		case *EField:
			return find(x.X)
		case *EIndex:
			if id, ok := x.I.(*EIdent); ok && id.Name == v && !mentions(x.X) {
				return x.X
			}
			if r := find(x.X); r != nil {
				return r
			}
			return find(x.I)
		case *ECond:
			for _, y := range []Expr{x.C, x.A, x.B} {
				if r := find(y); r != nil {
					return r
				}
			}
		case *EDeref:
			return find(x.X)
		case *EOld:
			// old(X[v]): the slice as it was in the old state
			if r := find(x.X); r != nil {
				if _, already := r.(*EOld); already {
					return r
				}
				return &EOld{X: r}
			}
		case *EQuant:
			for _, b := range x.Vars {
				if b.Name == v {
					return nil
				}
			}
			return find(x.Body)
		}
		return nil
	}
	return find(e)
}

func (g *FuncGen) constInt(env *Env, e Expr) int64 {
	v := g.tr(env, e)
	if isUntyped(v) {
		n, _ := strconv.ParseInt(v.S[len("UNTYPED:"):], 10, 64)
		return n
	}
	g.unsup("quantifier range bound %s is not a constant", e)
	return 0
}

func (g *FuncGen) trField(env *Env, x *EField) Val {
	c := g.c
	// pkg.Const
	if id, ok := x.X.(*EIdent); ok {
		if _, isVar := g.lookupName(env, id.Name); !isVar {
			var cands []*types.Package
			if env.pkg != nil {
				cands = append(cands, env.pkg.Imports()...)
			}
			for _, p := range g.prog.TypesPkgs {
				cands = append(cands, p)
				cands = append(cands, p.Imports()...)
			}
			want := g.aliasTargets(id.Name, env.pkg)
			for _, p := range cands {
				if p.Name() == id.Name || want[p.Path()] {
					if obj := p.Scope().Lookup(x.Name); obj != nil {
						if cst, ok := obj.(*types.Const); ok {
							return g.constObj(cst)
						}
					}
				}
			}
			g.unsup("unknown name %q in spec (stale-contract?)", id.Name)
		}
	}
	base := g.tr(env, x.X)
	if base.GT == nil {
		g.unsup("field %s of untyped value in %s", x.Name, x)
	}
	t := types.Unalias(base.GT)
	if p, ok := t.Underlying().(*types.Pointer); ok {
		st, name, ok := c.structOf(p.Elem())
		if !ok {
			g.unsup("field access on %s", t)
		}
		f, idx := findField(st, x.Name)
		if f == nil {
			if cl, gs, ok := g.ghostFieldClass(p.Elem(), x.Name); ok {
				return Val{T: fmt.Sprintf("(select %s %s)", g.heapOf(env.cur, cl), base.T), S: gs}
			}
			g.unsup("no field %s in %s (stale-contract?)", x.Name, p.Elem())
		}
		_ = idx
		if isStructType(f.Type()) {
			return g.loadStruct(c.subRef(name, f, base.T), f.Type(), env.cur)
		}
		if isArrayType(f.Type()) {
			at := f.Type().Underlying().(*types.Array)
			return Val{T: fmt.Sprintf("(select %s %s)", g.heapOf(env.cur, c.elemClass(at.Elem())), c.subRef(name, f, base.T)), S: c.sortOf(f.Type()), GT: f.Type()}
		}
		hv := g.heapOf(env.cur, c.fieldClass(name, f))
		rv := Val{T: fmt.Sprintf("(select %s %s)", hv, base.T), S: c.sortOf(f.Type()), GT: f.Type()}
		if strings.HasSuffix(hv, "@0") && g.entry != nil && !strings.Contains(rv.T, "q_") && (rv.S == SSlice || rv.S == SRef) {
			// the entry heap is closed: references stored in it denote objects that existed at entry
			key := "wf:" + rv.T
			if !c.declared[key] {
				c.declared[key] = true
				saved := g.curBlock
				g.curBlock = nil
				c.global(func() { g.assumeWellTyped(rv, f.Type(), g.entry) })
				g.curBlock = saved
			}
		}
		return rv
	}
	if st, name, ok := c.structOf(t); ok {
		c.sortOf(t)
		f, _ := findField(st, x.Name)
		if f == nil {
			g.unsup("no field %s in %s (stale-contract?)", x.Name, t)
		}
		return Val{T: fmt.Sprintf("(%s!%s %s)", name, fieldName(f), base.T), S: c.sortOf(f.Type()), GT: f.Type()}
	}
	g.unsup("field access .%s on %s", x.Name, t)
	return Val{}
}

// ghostFieldClass resolves a ghost (model) field of a struct type: heap class and value sort.
func (g *FuncGen) ghostFieldClass(t types.Type, name string) (string, Sort, bool) {
	n, ok := types.Unalias(t).(*types.Named)
	if !ok || n.Obj().Pkg() == nil {
		return "", "", false
	}
	key := n.Obj().Pkg().Path() + "." + n.Obj().Name()
	gf, ok := g.prog.GhostFields[key][name]
	if !ok {
		return "", "", false
	}
	pkg := g.prog.TypesPkgs[gf.Pkg]
	if pkg == nil {
		pkg = n.Obj().Pkg()
	}
	gt, gs := g.specType(gf.Type, pkg)
	if gt != nil {
		gs = g.c.sortOf(gt)
	}
	_, sname, _ := g.c.structOf(t)
	cl := g.c.class("G_"+sname+"_"+sanitize(name), fmt.Sprintf("(Array Int %s)", gs))
	return cl, gs, true
}

func findField(st *types.Struct, name string) (*types.Var, int) {
	for i := 0; i < st.NumFields(); i++ {
		if st.Field(i).Name() == name {
			return st.Field(i), i
		}
	}
	return nil, -1
}

func (g *FuncGen) trIndex(env *Env, x *EIndex) Val {
	c := g.c
	base := g.tr(env, x.X)
	idx := g.tr(env, x.I)
	if base.GT != nil {
		switch t := types.Unalias(base.GT).Underlying().(type) {
		case *types.Slice:
			idx = g.defaultInt(idx)
			i64 := g.toInt64(idx, idxType(idx))
			if isStructType(t.Elem()) {
				return g.loadStruct(c.elemRef(fmt.Sprintf("(s_arr %s)", base.T), g.add64(fmt.Sprintf("(s_off %s)", base.T), i64)), t.Elem(), env.cur)
			}
			return Val{T: fmt.Sprintf("(select (select %s (s_arr %s)) %s)", g.heapOf(env.cur, c.elemClass(t.Elem())), base.T, g.add64(fmt.Sprintf("(s_off %s)", base.T), i64)), S: c.sortOf(t.Elem()), GT: t.Elem()}
		case *types.Map:
			idx = g.coerceTo(idx, t.Key())
			mvh := g.heapOf(env.cur, c.mapValClass(t))
			if _, isSl := t.Elem().Underlying().(*types.Slice); isSl && strings.HasSuffix(mvh, "@0") && g.entry != nil {
				// the entry heap is closed (see the field case above); stated once per class for all keys so
				// that it is also available under quantifiers
				key := "wfmv:" + mvh
				if !c.declared[key] {
					c.declared[key] = true
					c.useQuant = true
					v := fmt.Sprintf("(select (select %s qr) qk)", mvh)
					c.global(func() {
						c.assert(fmt.Sprintf("(forall ((qr Int) (qk %s)) (! %s :pattern (%s)))", c.sortOf(t.Key()), g.sliceWF(v, g.entry), v))
					})
				}
			}
			return Val{T: fmt.Sprintf("(select %s %s)", g.mapVals(env.cur, t, base.T), idx.T), S: c.sortOf(t.Elem()), GT: t.Elem()}
		case *types.Array:
			idx = g.defaultInt(idx)
			return Val{T: fmt.Sprintf("(select %s %s)", base.T, g.toInt64(idx, idxType(idx))), S: c.sortOf(t.Elem()), GT: t.Elem()}
		case *types.Pointer:
			if at, ok := t.Elem().Underlying().(*types.Array); ok {
				idx = g.defaultInt(idx)
				return Val{T: fmt.Sprintf("(select (select %s %s) %s)", g.heapOf(env.cur, c.elemClass(at.Elem())), base.T, g.toInt64(idx, idxType(idx))), S: c.sortOf(at.Elem()), GT: at.Elem()}
			}
		case *types.Basic:
			if isString(t) {
				idx = g.defaultInt(idx)
				return Val{T: g.strByte(base.T, idx.T), S: c.intSort(8), GT: types.Typ[types.Uint8]}
			}
		}
	}
	if strings.HasPrefix(base.S, "(Array ") {
		idx = g.defaultInt(idx)
		// element sort: strip "(Array K " prefix
		return Val{T: fmt.Sprintf("(select %s %s)", base.T, idx.T), S: arrayElemSort(base.S)}
	}
	g.unsup("index on %s", base.S)
	return Val{}
}

func idxType(v Val) types.Type {
	if v.GT != nil {
		return v.GT
	}
	return types.Typ[types.Int]
}

func arrayElemSort(s Sort) Sort {
	// (Array K V): find V by scanning balanced parens
	inner := s[len("(Array ") : len(s)-1]
	depth := 0
	for i := 0; i < len(inner); i++ {
		switch inner[i] {
		case '(':
			depth++
		case ')':
			depth--
		case ' ':
			if depth == 0 {
				return inner[i+1:]
			}
		}
	}
	return inner
}

func (g *FuncGen) trSlice(env *Env, x *ESlice) Val {
	base := g.tr(env, x.X)
	if base.S == SString {
		if !g.c.mathInts {
			g.unsup("string slicing in spec requires option mathint")
		}
		lo := "0"
		if x.Lo != nil {
			lo = g.coerce(g.tr(env, x.Lo), Val{S: SInt}).T
		}
		hi := fmt.Sprintf("(str.len %s)", base.T)
		if x.Hi != nil {
			hi = g.coerce(g.tr(env, x.Hi), Val{S: SInt}).T
		}
		return Val{T: fmt.Sprintf("(str.substr %s %s (- %s %s))", base.T, lo, hi, lo), S: SString, GT: types.Typ[types.String]}
	}
	if base.S == SSlice {
		z := g.c.intLit64(0, 64)
		lo := z
		if x.Lo != nil {
			lo = g.toInt64(g.defaultInt(g.tr(env, x.Lo)), types.Typ[types.Int])
		}
		hi := fmt.Sprintf("(s_len %s)", base.T)
		if x.Hi != nil {
			hi = g.toInt64(g.defaultInt(g.tr(env, x.Hi)), types.Typ[types.Int])
		}
		return Val{T: fmt.Sprintf("(mk_slice (s_arr %s) %s %s %s)", base.T, g.add64(fmt.Sprintf("(s_off %s)", base.T), lo), g.sub64(hi, lo), g.sub64(fmt.Sprintf("(s_cap %s)", base.T), lo)), S: SSlice, GT: base.GT}
	}
	g.unsup("slice expression on %s", base.S)
	return Val{}
}

func (g *FuncGen) trCall(env *Env, x *ECall) Val {
	c := g.c
	i64 := c.intSort(64)
	intT := types.Typ[types.Int]
	switch x.Fun {
	case "len", "cap":
		a := g.tr(env, x.Args[0])
		if a.S == SSlice {
			f := "s_len"
			if x.Fun == "cap" {
				f = "s_cap"
			}
			return Val{T: fmt.Sprintf("(%s %s)", f, a.T), S: i64, GT: intT}
		}
		if a.S == SString {
			return Val{T: g.strLen(a.T), S: i64, GT: intT}
		}
		if mt, ok := mapOf(a.GT); ok {
			card := fmt.Sprintf("(%s %s)", g.cardFn(mt), g.mapDom(env.cur, mt, a.T))
			return Val{T: ite(eq(a.T, "0"), c.intLit64(0, 64), card), S: i64, GT: intT}
		}
		if a.GT != nil {
			if at, ok := a.GT.Underlying().(*types.Array); ok {
				return Val{T: c.intLit64(at.Len(), 64), S: i64, GT: intT}
			}
		}
		g.unsup("len of %s", a.S)
	case "fresh":
		a := g.tr(env, x.Args[0])
		ref := a.T
		if a.S == SSlice {
			ref = fmt.Sprintf("(s_arr %s)", a.T)
		}
		base := env.old.hwm
		if env.freshBase != nil {
			base = env.freshBase.hwm // in a ghost statement at a call site: allocated since the CALLER was entered
		}
		return Val{T: fmt.Sprintf("(> %s %s)", c.root(ref), base), S: SBool, GT: types.Typ[types.Bool]}
	case "allocated":
		a := g.tr(env, x.Args[0])
		return Val{T: fmt.Sprintf("(and (not (= %s 0)) (<= %s %s))", a.T, c.root(a.T), env.cur.hwm), S: SBool, GT: types.Typ[types.Bool]}
	case "ite":
		cnd := g.trBool(env, x.Args[0], "")
		a, b := g.unify(g.tr(env, x.Args[1]), g.tr(env, x.Args[2]))
		return Val{T: ite(cnd, a.T, b.T), S: a.S, GT: a.GT}
	case "hasSuffix", "hasPrefix", "strContains":
		s := g.tr(env, x.Args[0])
		t := g.tr(env, x.Args[1])
		if s.S != SString || t.S != SString {
			g.unsup("%s needs strings", x.Fun)
		}
		op := map[string]string{"hasSuffix": "str.suffixof", "hasPrefix": "str.prefixof", "strContains": "str.contains"}[x.Fun]
		if x.Fun == "strContains" {
			return Val{T: fmt.Sprintf("(%s %s %s)", op, s.T, t.T), S: SBool, GT: types.Typ[types.Bool]}
		}
		return Val{T: fmt.Sprintf("(%s %s %s)", op, t.T, s.T), S: SBool, GT: types.Typ[types.Bool]}
	case "addrof":
		// addrof(V): the address of package-level variable V (what &V denotes in the code)
		id, ok := x.Args[0].(*EIdent)
		if !ok {
			g.unsup("addrof needs the name of a package-level variable")
		}
		pkgs := []*types.Package{env.pkg, g.pkg}
		for _, p := range pkgs {
			if p == nil {
				continue
			}
			if gv, ok := p.Scope().Lookup(id.Name).(*types.Var); ok {
				ref := c.constant("glob_"+sanitize(p.Name()+"."+id.Name), SInt)
				return Val{T: ref, S: SInt, GT: types.NewPointer(gv.Type())}
			}
		}
		g.unsup("addrof(%s): no such package-level variable (stale-contract?)", id.Name)
	case "textOf":
		// textOf(b): the string spelled by byte slice b in the current state (what string(b) would return)
		a := g.tr(env, x.Args[0])
		if a.S != SSlice || !isByteSlice(a.GT) {
			g.unsup("textOf needs a []byte")
		}
		return Val{T: g.bytesText(g.heapOf(env.cur, c.elemClass(types.Typ[types.Uint8])), a.T), S: SString, GT: types.Typ[types.String]}
	case "typeof":
		a := g.tr(env, x.Args[0])
		return Val{T: fmt.Sprintf("(i_typ %s)", a.T), S: SInt}
	case "istype":
		// istype(x, T): dynamic type of interface value x is T
		a := g.tr(env, x.Args[0])
		id, ok := x.Args[1].(*EIdent)
		var tyText string
		if ok {
			tyText = id.Name
		} else {
			tyText = x.Args[1].String()
		}
		t, _ := g.specType(tyText, env.pkg)
		return Val{T: eq(fmt.Sprintf("(i_typ %s)", a.T), fmt.Sprint(c.typeTag(t))), S: SBool, GT: types.Typ[types.Bool]}
	case "coffsetof", "coffsetof6", "csizeof", "csizeof6":
		// a C-side layout fact (clang -target bpf over the repo's headers), usable as an integer literal in contracts
		var sargs []string
		for _, a := range x.Args {
			s, ok := strArg(a)
			if !ok {
				g.unsup("%s needs string arguments", x.Fun)
			}
			sargs = append(sargs, s)
		}
		n, err := cLayoutQuery(g.prog, x.Fun, sargs)
		if err != nil {
			g.unsup("%s: %v", x, err)
		}
		c.note("C side: " + x.String() + " = " + n.String() + " (clang -target bpf, stub libbpf headers)")
		return Val{S: "UNTYPED:" + n.String()}
	case "store":
		// store(S, k, v): functional update of a spec-level set/array (ghost state)
		a := g.tr(env, x.Args[0])
		if !strings.HasPrefix(a.S, "(Array ") {
			g.unsup("store needs a set/array, got %s", a.S)
		}
		k := g.defaultInt(g.tr(env, x.Args[1]))
		v := g.tr(env, x.Args[2])
		es := arrayElemSort(a.S)
		v = g.coerceTo2(v, es, nil)
		return Val{T: fmt.Sprintf("(store %s %s %s)", a.T, k.T, v.T), S: a.S}
	case "emptyset":
		// emptyset(T): the empty set of T
		t, s := g.specType(x.Args[0].String(), env.pkg)
		if t != nil {
			s = c.sortOf(t)
		}
		srt := fmt.Sprintf("(Array %s Bool)", s)
		return Val{T: fmt.Sprintf("((as const %s) false)", srt), S: srt}
	case "setOf":
		// setOf(s): the set of elements of slice s (in the current state)
		a := g.tr(env, x.Args[0])
		sl, ok := a.GT.Underlying().(*types.Slice)
		if a.S != SSlice || !ok || isStructType(sl.Elem()) {
			g.unsup("setOf needs a slice of non-struct elements")
		}
		srt := fmt.Sprintf("(Array %s Bool)", c.sortOf(sl.Elem()))
		return Val{T: g.sliceSetOf(g.heapOf(env.cur, c.elemClass(sl.Elem())), a.T, sl.Elem()), S: srt}
	case "arrayOf":
		// arrayOf(s): identity of the backing array of slice s (0 for a nil slice)
		a := g.tr(env, x.Args[0])
		if a.S != SSlice {
			g.unsup("arrayOf needs a slice")
		}
		return Val{T: fmt.Sprintf("(s_arr %s)", a.T), S: SInt}
	case "isNaN", "isInf":
		a := g.tr(env, x.Args[0])
		op := map[string]string{"isNaN": "fp.isNaN", "isInf": "fp.isInfinite"}[x.Fun]
		return Val{T: fmt.Sprintf("(%s %s)", op, a.T), S: SBool, GT: types.Typ[types.Bool]}
	case "zero":
		// zero(T): the zero value of Go type T
		t, _ := g.specType(x.Args[0].String(), env.pkg)
		if t == nil {
			g.unsup("zero: unknown type %s", x.Args[0])
		}
		return Val{T: c.zero(t), S: c.sortOf(t), GT: t}
	case "cast":
		// cast(x, T): the dynamic value of interface x viewed as a T (meaningful only under istype(x, T))
		a := g.tr(env, x.Args[0])
		t, _ := g.specType(x.Args[1].String(), env.pkg)
		if t == nil {
			g.unsup("cast: unknown type %s", x.Args[1])
		}
		s := c.sortOf(t)
		if env.cur != nil { // (not inside the definition of a spec function, whose parameters are bound variables)
			g.unboxFacts(a.T, t, eq(fmt.Sprintf("(i_typ %s)", a.T), fmt.Sprint(c.typeTag(t))))
		}
		return Val{T: c.unbox(s, fmt.Sprintf("(i_val %s)", a.T)), S: s, GT: t}
	case "mathint":
		a := g.defaultInt(g.tr(env, x.Args[0]))
		if a.S == SInt {
			return a
		}
		if g.isSigned(a.GT) {
			var w int
			fmt.Sscanf(a.S, "(_ BitVec %d)", &w)
			return Val{T: fmt.Sprintf("(ite (bvslt %s (_ bv0 %d)) (- (bv2nat %s) %s) (bv2nat %s))", a.T, w, a.T, new(big.Int).Lsh(big.NewInt(1), uint(w)).String(), a.T), S: SInt}
		}
		return Val{T: fmt.Sprintf("(bv2nat %s)", a.T), S: SInt}
	}
	// type conversion?
	if t := g.tryType(x.Fun, env.pkg); t != nil && len(x.Args) == 1 {
		a := g.tr(env, x.Args[0])
		if isUntyped(a) {
			return g.coerce(a, Val{S: c.sortOf(t), GT: t})
		}
		from := a.GT
		if from == nil {
			g.unsup("conversion %s of untyped spec value", x)
		}
		r := g.convert(a, from, t)
		r.GT = t
		return r
	}
	// spec function
	sf := g.prog.SpecFuncs[x.Fun]
	if sf == nil {
		// v.f(args): application of a function field declared `ghost purefunc`
		if k := strings.LastIndex(x.Fun, "."); k > 0 {
			if base, ok := g.lookupName(env, x.Fun[:k]); ok && base.GT != nil {
				if st, sname, ok := c.structOf(derefType(base.GT)); ok && g.isPureFuncField(sname, x.Fun[k+1:]) {
					f, _ := findField(st, x.Fun[k+1:])
					sig, _ := f.Type().Underlying().(*types.Signature)
					if f != nil && sig != nil && sig.Results().Len() == 1 {
						fv := g.trField(env, &EField{X: &EIdent{Name: x.Fun[:k]}, Name: x.Fun[k+1:]})
						var args []Val
						for i, a := range x.Args {
							v := g.tr(env, a)
							if i < sig.Params().Len() {
								v = g.coerceTo(v, sig.Params().At(i).Type())
							}
							args = append(args, v)
						}
						rt := sig.Results().At(0).Type()
						return Val{T: g.pureFieldApp(sname, x.Fun[k+1:], fv, args, rt), S: c.sortOf(rt), GT: rt}
					}
				}
			}
		}
		g.unsup("unknown spec function %s", x.Fun)
	}
	if len(sf.Params) != len(x.Args) {
		g.unsup("spec function %s: %d args, want %d", x.Fun, len(x.Args), len(sf.Params))
	}
	pkg := env.pkg
	if sf.Pkg != "" && g.prog.TypesPkgs[sf.Pkg] != nil {
		pkg = g.prog.TypesPkgs[sf.Pkg]
	}
	var args []Val
	for i, a := range x.Args {
		v := g.tr(env, a)
		pt, ps := g.specType(sf.Params[i].Type, pkg)
		if pt != nil {
			ps = c.sortOf(pt)
		}
		v = g.coerceTo2(v, ps, pt)
		if v.S != ps {
			g.unsup("spec function %s arg %d: sort %s, want %s (in %s)", x.Fun, i+1, v.S, ps, x)
		}
		if ps == SIface && pt != nil && env.cur != nil {
			// an interface value handed to a spec function: the function may look inside it (cast); give the
			// boxing facts for the implementations of the interface that the loaded packages declare
			for _, it := range g.implementers(pt) {
				g.unboxFacts(v.T, it, eq(fmt.Sprintf("(i_typ %s)", v.T), fmt.Sprint(c.typeTag(it))))
			}
		}
		args = append(args, v)
	}
	rt, rs := g.specType(sf.Ret, pkg)
	if rt != nil {
		rs = c.sortOf(rt)
	}
	if sf.Macro {
		e2 := &Env{g: g, vars: map[string]Val{}, cur: env.cur, old: env.old, pkg: pkg, inOld: env.inOld}
		for i, p := range sf.Params {
			v := args[i]
			pt, _ := g.specType(p.Type, pkg)
			if pt != nil {
				v.GT = pt
			}
			e2.vars[p.Name] = v
		}
		r := g.tr(e2, sf.Body)
		r = g.coerceTo2(r, rs, rt)
		return r
	}
	g.defineSpecFunc(sf, pkg)
	var ts []string
	for _, a := range args {
		ts = append(ts, a.T)
	}
	term := "sf_" + sf.Name
	if len(ts) > 0 {
		term = fmt.Sprintf("(sf_%s %s)", sf.Name, strings.Join(ts, " "))
	}
	return Val{T: term, S: rs, GT: rt}
}

// implementers: named non-interface types of the loaded packages (value types holding arrays or structs) that
// implement interface type t.
func (g *FuncGen) implementers(t types.Type) []types.Type {
	iface, ok := types.Unalias(t).Underlying().(*types.Interface)
	if !ok || iface.NumMethods() == 0 {
		return nil
	}
	var out []types.Type
	var names []string
	byName := map[string]types.Type{}
	for _, p := range g.prog.TypesPkgs {
		sc := p.Scope()
		for _, n := range sc.Names() {
			tn, ok := sc.Lookup(n).(*types.TypeName)
			if !ok || tn.IsAlias() {
				continue
			}
			nt := tn.Type()
			if _, isI := nt.Underlying().(*types.Interface); isI {
				continue
			}
			if named, ok := nt.(*types.Named); ok && named.TypeParams().Len() > 0 {
				continue
			}
			if !isStructType(nt) && !isArrayType(nt) {
				continue
			}
			if types.Implements(nt, iface) {
				k := p.Path() + "." + n
				names = append(names, k)
				byName[k] = nt
			}
		}
	}
	sort.Strings(names)
	for _, k := range names {
		out = append(out, byName[k])
	}
	return out
}

func (g *FuncGen) coerceTo2(v Val, s Sort, t types.Type) Val {
	if isUntyped(v) {
		return g.coerce(v, Val{S: s, GT: t})
	}
	if v.S == "NIL" {
		return g.nilOf(Val{S: s, GT: t})
	}
	return v
}

func (g *FuncGen) tryType(name string, pkg *types.Package) types.Type {
	if obj := types.Universe.Lookup(name); obj != nil {
		if tn, ok := obj.(*types.TypeName); ok {
			return tn.Type()
		}
		return nil
	}
	if g.prog.SpecFuncs[name] != nil {
		return nil
	}
	if pkg != nil {
		if obj := pkg.Scope().Lookup(name); obj != nil {
			if tn, ok := obj.(*types.TypeName); ok {
				return tn.Type()
			}
		}
	}
	return nil
}

func (g *FuncGen) isOpaque(name string) bool {
	if g.contract == nil {
		return g.opaque[name]
	}
	for _, n := range strings.Fields(strings.ReplaceAll(g.contract.Options["opaque"], ",", " ")) {
		if n == name {
			return true
		}
	}
	return g.opaque[name]
}

// defineSpecFunc emits define-fun / define-fun-rec / declare-fun for a (heap-free) spec function.
func (g *FuncGen) defineSpecFunc(sf *SpecFunc, pkg *types.Package) {
	c := g.c
	key := "specfunc:" + sf.Name
	if c.declared[key] {
		return
	}
	c.declared[key] = true
	var params []string
	var sorts []string
	env := &Env{g: g, vars: map[string]Val{}, cur: nil, old: nil, pkg: pkg}
	for _, p := range sf.Params {
		t, s := g.specType(p.Type, pkg)
		if t != nil {
			s = c.sortOf(t)
		}
		n := "a_" + sanitize(p.Name)
		params = append(params, fmt.Sprintf("(%s %s)", n, s))
		sorts = append(sorts, s)
		env.vars[p.Name] = Val{T: n, S: s, GT: t}
	}
	rt, rs := g.specType(sf.Ret, pkg)
	if rt != nil {
		rs = c.sortOf(rt)
	}
	if sf.Body == nil {
		c.decl(fmt.Sprintf("(declare-fun sf_%s (%s) %s)", sf.Name, strings.Join(sorts, " "), rs))
		c.note("uninterpreted spec function " + sf.Name)
		if len(sf.Params) == 0 {
			// an unknown environment constant (e.g. the host byte order): show its value in counterexamples
			g.modelVars = append(g.modelVars, ModelVar{"<environment> " + sf.Name + "()", "sf_" + sf.Name})
		}
		return
	}
	if g.isOpaque(sf.Name) {
		// abstraction: the definition is hidden in this unit (sound: anything proved holds for every interpretation)
		c.decl(fmt.Sprintf("(declare-fun sf_%s (%s) %s)", sf.Name, strings.Join(sorts, " "), rs))
		return
	}
	if sf.Rec {
		// declare first so the body can mention it
		c.declared["specfunc-rec:"+sf.Name] = true
	}
	// translate the body; nested spec functions get declared first (into c.decls) as a side effect
	body := g.tr(env, sf.Body)
	body = g.coerceTo2(body, rs, rt)
	if body.S != rs {
		g.unsup("spec function %s: body sort %s, declared %s", sf.Name, body.S, rs)
	}
	kw := "define-fun"
	if sf.Rec {
		kw = "define-fun-rec"
		c.useQuant = true
	}
	c.decl(fmt.Sprintf("(%s sf_%s (%s) %s %s)", kw, sf.Name, strings.Join(params, " "), rs, body.T))
}
